#!/bin/sh
# builds the triage driver against the library built in /repo/_build (or $1)
B=${1:-/repo/_build}
R=${2:-/repo}
g++ -std=c++11 -O1 -g -fopenmp -I$R/src -I$R/misc_interfaces/stubs -o ${3:-/tmp/replay/driver} /verif/replay/driver.cpp $R/misc_interfaces/stubs/colvarproxy_stub.cpp $B/libcolvars.a
