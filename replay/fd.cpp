// Triage-only finite-difference harness (NOT part of any registered check): compares the atomic forces the
// library hands to the (stub) engine with minus the central-difference derivative of the energy it reports.
// usage: fd [-f frame_index] [-h step] [-t tol] [-x traj.xyz] config
#include <iostream>
#include <fstream>
#include <sstream>
#include <string>
#include <vector>
#include <cmath>
#include <cstring>
#include "colvarmodule.h"
#include "colvarproxy.h"
#include "colvarproxy_stub.h"

struct fdproxy : public colvarproxy_stub {
  double e_sum = 0.0;
  void add_energy(cvm::real e) override { e_sum += e; }
  void set_masses_charges() {  // non-uniform masses and charges (the stub sets 1 and 0)
    for (size_t i = 0; i < atoms_masses.size(); i++) {
      atoms_masses[i] = 1.0 + 2.5 * double(i % 5);
      atoms_charges[i] = 0.4 * (double(i % 3) - 1.0) + 0.05 * double(i % 7);
    }
  }
  double eval(std::vector<cvm::rvector> const &pos, std::vector<cvm::rvector> *forces) {
    for (size_t i = 0; i < pos.size(); i++) atoms_positions[i] = pos[i];
    for (size_t i = 0; i < atoms_new_colvar_forces.size(); i++) atoms_new_colvar_forces[i] = cvm::rvector(0., 0., 0.);
    e_sum = 0.0;
    colvars->calc();
    if (forces) *forces = atoms_new_colvar_forces;
    return e_sum;
  }
};

int main(int argc, char **argv) {
  int frame = 0; double h = 1e-5, tol = 1e-4, pert = 0.0; int warm = 0; std::string traj, conf;
  for (int i = 1; i < argc; i++) {
    std::string a = argv[i];
    if (a == "-f") frame = atoi(argv[++i]);
    else if (a == "-h") h = atof(argv[++i]);
    else if (a == "-t") tol = atof(argv[++i]);
    else if (a == "-x") traj = argv[++i];
    else if (a == "-p") pert = atof(argv[++i]);
    else if (a == "-w") warm = atoi(argv[++i]);
    else conf = a;
  }
  fdproxy *proxy = new fdproxy();
  proxy->set_unit_system("real", false);
  proxy->set_target_temperature(300.0);
  proxy->set_output_prefix(conf + ".out");
  proxy->colvars->setup_input();
  proxy->colvars->setup_output();
  // atoms are requested before the configuration is read, so that proxy index == atom number - 1 and the
  // coordinates read from the xyz file end up on the atoms they belong to
  std::ifstream ifs(traj); int natoms; ifs >> natoms; ifs.close();
  for (int ai = 0; ai < natoms; ai++) proxy->init_atom(ai + 1);
  proxy->set_masses_charges();
  if (proxy->colvars->read_config_file(conf.c_str()) != COLVARS_OK || cvm::get_error()) {
    std::cout << "fd: CONFIG-ERROR" << std::endl; return 3;
  }
  // load frames up to the requested one
  for (int k = 0; k <= frame; k++) {
    if (proxy->colvars->load_coords_xyz(traj.c_str(), proxy->modify_atom_positions(), nullptr, true) != COLVARS_OK) break;
  }
  std::vector<cvm::rvector> pos = *proxy->modify_atom_positions();
  if (pert > 0.0) {  // deterministic displacement away from the stored frames
    unsigned long long z = 88172645463325252ULL;
    for (size_t i = 0; i < pos.size(); i++) for (int d = 0; d < 3; d++) {
      z ^= z << 13; z ^= z >> 7; z ^= z << 17;
      pos[i][d] += pert * (double(z % 2000001ULL) / 1000000.0 - 1.0);
    }
  }
  // a few steps at fixed coordinates so that step-dependent pieces settle; energy must not depend on the step for FD
  proxy->colvars->it = proxy->colvars->it_restart = 0;
  std::vector<cvm::rvector> F;
  if (warm > 0) {  // history-dependent biases: deposit kernels along a short random walk, then stop at a step where none is added
    unsigned long long z = 1181783497276652981ULL;
    std::vector<cvm::rvector> p = pos;
    for (int k = 0; k < warm; k++) {
      for (size_t i = 0; i < p.size(); i++) for (int d = 0; d < 3; d++) {
        z ^= z << 13; z ^= z >> 7; z ^= z << 17;
        p[i][d] = pos[i][d] + 0.15 * (double(z % 2000001ULL) / 1000000.0 - 1.0);
      }
      proxy->eval(p, nullptr);
      proxy->colvars->it++;
    }
  }
  double e0 = proxy->eval(pos, &F);
  double e0b = proxy->eval(pos, &F);
  if (cvm::get_error()) { std::cout << "fd: RUN-ERROR" << std::endl; return 3; }
  if (std::fabs(e0 - e0b) > 1e-10 * (1.0 + std::fabs(e0))) {
    std::cout << "fd: energy is not a function of the coordinates alone (" << e0 << " vs " << e0b << "): SKIP" << std::endl;
    return 4;
  }
  double worst = 0.0, fmax = 0.0; int nbad = 0, ntested = 0;
  for (size_t i = 0; i < pos.size(); i++) {
    for (int d = 0; d < 3; d++) {
      std::vector<cvm::rvector> p = pos;
      p[i][d] += h; double ep = proxy->eval(p, nullptr);
      p[i][d] -= 2 * h; double em = proxy->eval(p, nullptr);
      double fd = -(ep - em) / (2 * h);
      double f = F[i][d];
      fmax = std::max(fmax, std::fabs(f));
      if (fd == 0.0 && f == 0.0) continue;
      ntested++;
      double err = std::fabs(fd - f);
      double scale = std::max(std::fabs(fd), std::fabs(f));
      if (err > tol * std::max(1.0, scale) ) {
        if (nbad < 6) std::cout << "  atom " << (i + 1) << " dim " << d << ": force " << f << " vs -dE/dx " << fd << std::endl;
        nbad++;
      }
      worst = std::max(worst, err / std::max(1.0, scale));
    }
  }
  std::cout << "fd: E=" << e0 << " |F|max=" << fmax << " tested=" << ntested << " bad=" << nbad << " worst_rel=" << worst
            << (nbad ? " MISMATCH" : " OK") << std::endl;
  delete proxy;
  return nbad ? 1 : 0;
}
