#!/usr/bin/env python3
"""Triage-only sweep (NOT a registered check): generates colvars configurations for every component type x atom-group
options x combination options x differentiable biases, and runs the finite-difference harness replay/fd on each.
Used once to look for genuine C01 defects behind (or beyond) the static rules.  Needs /tmp/replay/fd (see fd.cpp)."""
import os, subprocess, sys, itertools, concurrent.futures as cf

IN = "/repo/tests/input_files"
OUT = "/tmp/replay/fdsweep"
os.makedirs(OUT, exist_ok=True)

# reference = first frame of the trajectory
with open(IN + "/trajectory.xyz") as f:
    lines = f.readlines()
open(OUT + "/ref104.xyz", "w").writelines(lines[:106])

HDR = "colvarsTrajFrequency 1\ncolvarsRestartFrequency 0\nindexFile %s/index.ndx\n" % IN


def grp(name, index, opt=""):
    return "    %s {\n      indexGroup %s\n%s    }\n" % (name, index, opt)


FIT = {
    "plain": "",
    "center": "      centerToReference yes\n      refPositionsFile %s/ref104.xyz\n" % OUT,
    "rotate": "      centerToReference yes\n      rotateToReference yes\n      refPositionsFile %s/ref104.xyz\n" % OUT,
    "fitgrp": "      centerToReference yes\n      rotateToReference yes\n      fittingGroup {\n        indexGroup heavy_atoms\n      }\n      refPositionsFile %s/heavy_atoms_refpos.xyz\n" % IN,
    "fitgrp-center": "      centerToReference yes\n      fittingGroup {\n        indexGroup heavy_atoms\n      }\n      refPositionsFile %s/heavy_atoms_refpos.xyz\n" % IN,
    "rotonly": "      centerToReference no\n      rotateToReference yes\n      refPositionsFile %s/ref104.xyz\n" % OUT,
}

SCALAR_BIAS = {
    "harmonic": "harmonic {\n  colvars one\n  centers %(c)s\n  forceConstant 0.7\n}\n",
    "walls": "harmonicWalls {\n  colvars one\n  lowerWalls %(hi)s\n  upperWalls %(hi2)s\n  forceConstant 0.7\n}\n",
    "linear": "linear {\n  colvars one\n  centers %(c)s\n  forceConstant 0.7\n}\n",
}

# (keyword, body-builder(fitopt), centre of the restraint, width)
def comps(fit):
    o = FIT[fit]
    C = {}
    C["distance"] = (grp("group1", "group1", o) + grp("group2", "group5", o), "3.0")
    C["distanceInv"] = (grp("group1", "group1", o) + grp("group2", "group5", o), "3.0")
    C["distanceZ-ref2"] = (grp("main", "group5", o) + grp("ref", "group1", o) + grp("ref2", "group10", o), "0.1")
    C["distanceZ-axis"] = (grp("main", "group5", o) + grp("ref", "group1", o) + "    axis (0.3, -0.2, 1.0)\n", "0.1")
    C["distanceXY-ref2"] = (grp("main", "group5", o) + grp("ref", "group1", o) + grp("ref2", "group10", o), "0.1")
    C["distanceXY-axis"] = (grp("main", "group5", o) + grp("ref", "group1", o) + "    axis (0.3, -0.2, 1.0)\n", "0.1")
    C["polarTheta"] = (grp("atoms", "group5", o), "10.0")
    C["polarPhi"] = (grp("atoms", "group5", o), "10.0")
    C["dipoleMagnitude"] = (grp("atoms", "group5", o), "0.1")
    C["gyration"] = (grp("atoms", "RMSD_atoms", o), "1.0")
    C["inertia"] = (grp("atoms", "RMSD_atoms", o), "1.0")
    C["inertiaZ"] = (grp("atoms", "RMSD_atoms", o) + "    axis (0.3, -0.2, 1.0)\n", "1.0")
    C["angle"] = (grp("group1", "group1", o) + grp("group2", "group5", o) + grp("group3", "group9", o), "40.0")
    C["dipoleAngle"] = (grp("group1", "group1", o) + grp("group2", "group5", o) + grp("group3", "group9", o), "40.0")
    C["dihedral"] = (grp("group1", "group1", o) + grp("group2", "group4", o) + grp("group3", "group7", o) + grp("group4", "group10", o), "40.0")
    C["coordNum"] = (grp("group1", "group1", o) + grp("group2", "group5", o) + "    cutoff 6.0\n", "0.1")
    C["coordNum-aniso"] = (grp("group1", "group1", o) + grp("group2", "group5", o) + "    cutoff3 (5.0, 6.0, 7.0)\n", "0.1")
    C["coordNum-exp"] = (grp("group1", "group1", o) + grp("group2", "group5", o) + "    cutoff 6.0\n    expNumer 4\n    expDenom 10\n", "0.1")
    C["coordNum-g2c"] = (grp("group1", "group1", o) + grp("group2", "group5", o) + "    cutoff 6.0\n    group2CenterOnly yes\n", "0.1")
    C["selfCoordNum"] = (grp("group1", "RMSD_atoms", o) + "    cutoff 6.0\n", "0.1")
    C["groupCoord"] = (grp("group1", "group1", o) + grp("group2", "group5", o) + "    cutoff 6.0\n", "0.1")
    C["groupCoord-aniso"] = (grp("group1", "group1", o) + grp("group2", "group5", o) + "    cutoff3 (5.0, 6.0, 7.0)\n", "0.1")
    C["hBond"] = ("    acceptor 11\n    donor 42\n    cutoff 8.0\n", "0.1") if fit == "plain" else None
    return {k: v for k, v in C.items() if v}


# components that take one group and a reference of their own
def refcomps(fit):
    o = FIT[fit] if fit in ("plain", "fitgrp", "fitgrp-center") else None
    if o is None:
        return {}
    R = "    refPositionsFile %s/rmsd_atoms_refpos.xyz\n" % IN
    C = {}
    C["rmsd"] = (grp("atoms", "RMSD_atoms", o) + R, "0.5")
    C["orientationAngle"] = (grp("atoms", "RMSD_atoms", o) + R, "10.0")
    C["orientationProj"] = (grp("atoms", "RMSD_atoms", o) + R, "0.1")
    C["tilt"] = (grp("atoms", "RMSD_atoms", o) + R + "    axis (0.3, -0.2, 1.0)\n", "0.1")
    C["spinAngle"] = (grp("atoms", "RMSD_atoms", o) + R + "    axis (0.3, -0.2, 1.0)\n", "10.0")
    C["eulerPhi"] = (grp("atoms", "RMSD_atoms", o) + R, "10.0")
    C["eulerTheta"] = (grp("atoms", "RMSD_atoms", o) + R, "10.0")
    C["eulerPsi"] = (grp("atoms", "RMSD_atoms", o) + R, "10.0")
    C["eigenvector-diff"] = (grp("atoms", "RMSD_atoms", o if fit != "plain" else FIT["plain"]) + R +
                             "    vectorFile %s/rmsd_atoms_random.xyz\n    differenceVector yes\n" % IN, "0.1")
    if fit == "plain":
        # default fitting chosen by the component itself (no fitting options in the atoms block)
        C["eigenvector-default"] = (grp("atoms", "RMSD_atoms", "") + R + "    vectorFile %s/rmsd_atoms_random.xyz\n" % IN, "0.1")
        C["eigenvector-default-norm"] = (grp("atoms", "RMSD_atoms", "") + R + "    vectorFile %s/rmsd_atoms_random.xyz\n    normalizeVector yes\n" % IN, "0.1")
    return C


def vector_comps(fit):
    o = FIT[fit]
    R = "    refPositionsFile %s/rmsd_atoms_refpos.xyz\n" % IN
    C = {}
    C["distanceVec"] = (grp("group1", "group1", o) + grp("group2", "group5", o),
                        "harmonic {\n  colvars one\n  centers (1.0, 2.0, 3.0)\n  forceConstant 0.7\n}\n")
    C["distanceDir"] = (grp("group1", "group1", o) + grp("group2", "group5", o),
                        "harmonic {\n  colvars one\n  centers (1.0, 0.0, 0.0)\n  forceConstant 0.7\n}\n")
    C["distancePairs"] = (grp("group1", "group1", o) + grp("group2", "group5", o),
                          "linear {\n  colvars one\n  centers (%s)\n  forceConstant 0.7\n}\n" % ", ".join(["1.0"] * 16))
    C["cartesian"] = (grp("atoms", "group5", o),
                      "linear {\n  colvars one\n  centers (%s)\n  forceConstant 0.7\n}\n" % ", ".join(["1.0"] * 12))
    if fit in ("plain", "fitgrp", "fitgrp-center"):
        C["orientation"] = (grp("atoms", "RMSD_atoms", o) + R,
                            "harmonic {\n  colvars one\n  centers (1.0, 0.0, 0.0, 0.0)\n  forceConstant 0.7\n}\n")
    return C


def colvar(body_kw_pairs, extra=""):
    s = "colvar {\n  name one\n%s" % extra
    for kw, body in body_kw_pairs:
        s += "  %s {\n%s  }\n" % (kw.split("-")[0], body)
    return s + "}\n"


jobs = {}
for fit in FIT:
    for kw, (body, c) in list(comps(fit).items()) + list(refcomps(fit).items()):
        bias = SCALAR_BIAS["harmonic"] % {"c": c, "hi": c, "hi2": c}
        jobs["%s.%s.harmonic" % (kw, fit)] = HDR + colvar([(kw, body)]) + bias
    for kw, (body, bias) in vector_comps(fit).items():
        jobs["%s.%s.vec" % (kw, fit)] = HDR + colvar([(kw, body)]) + bias

# combinations: coefficients and exponents, two components
b1, c1 = comps("plain")["distance"]
b2, c2 = comps("rotate")["angle"]
for name, x1, x2 in (("coeff", "    componentCoeff 2.5\n", "    componentCoeff -0.5\n"),
                     ("exp", "    componentExp 2\n", "    componentCoeff 0.01\n    componentExp 3\n"),
                     ("negexp", "    componentExp -1\n", "    componentCoeff 0.01\n    componentExp 2\n")):
    jobs["combo.%s.harmonic" % name] = HDR + colvar([("distance", x1 + b1), ("angle", x2 + b2)]) + SCALAR_BIAS["harmonic"] % {"c": "1.0", "hi": 0, "hi2": 0}

# other biases on a distance
b, c = comps("fitgrp")["distance"]
jobs["distance.fitgrp.walls"] = HDR + colvar([("distance", b)]) + SCALAR_BIAS["walls"] % {"c": 0, "hi": "20.0", "hi2": "25.0"}
jobs["distance.fitgrp.walls-upper"] = HDR + colvar([("distance", b)]) + "harmonicWalls {\n  colvars one\n  upperWalls 3.0\n  forceConstant 0.7\n}\n"
jobs["distance.fitgrp.linear"] = HDR + colvar([("distance", b)]) + SCALAR_BIAS["linear"] % {"c": "3.0", "hi": 0, "hi2": 0}
jobs["distance.plain.abmd"] = HDR + colvar([("distance", b1)]) + "abmd {\n  colvars one\n  forceConstant 0.7\n  stoppingValue 2.0\n}\n"
jobs["distance.plain.histrestraint"] = HDR + colvar([("distance", b1)], "  lowerBoundary 0.0\n  upperBoundary 20.0\n  width 1.0\n") + \
    "histogramRestraint {\n  colvars one\n  lowerBoundary 0.0\n  upperBoundary 20.0\n  width 1.0\n  gaussianSigma 2.0\n  forceConstant 3.0\n  refHistogram (%s)\n}\n" % ", ".join(["0.05"] * 20)
# dummy atom group
jobs["distance.dummy.harmonic"] = HDR + colvar([("distance", grp("group1", "group1") + "    group2 {\n      dummyAtom (1.0, 2.0, 3.0)\n    }\n")]) + SCALAR_BIAS["harmonic"] % {"c": "3.0", "hi": 0, "hi2": 0}
# protein
jobs["alpha.plain.harmonic"] = HDR + "colvar {\n  name one\n  alpha {\n    prefix prot_\n  }\n}\n" + SCALAR_BIAS["harmonic"] % {"c": "0.9", "hi": 0, "hi2": 0}
jobs["alpha-hb.plain.harmonic"] = HDR + "colvar {\n  name one\n  alpha {\n    prefix prot_\n    hBondCoeff 1.0\n  }\n}\n" + SCALAR_BIAS["harmonic"] % {"c": "0.9", "hi": 0, "hi2": 0}
jobs["alpha-ang.plain.harmonic"] = HDR + "colvar {\n  name one\n  alpha {\n    prefix prot_\n    hBondCoeff 0.0\n  }\n}\n" + SCALAR_BIAS["harmonic"] % {"c": "0.9", "hi": 0, "hi2": 0}
jobs["dihedralPC.plain.harmonic"] = HDR + "colvar {\n  name one\n  dihedralPC {\n    prefix prot_\n    vectorFile %s/eigenvectors-localmin\n    vectorNumber 2\n  }\n}\n" % IN + SCALAR_BIAS["harmonic"] % {"c": "0.9", "hi": 0, "hi2": 0}
# mass-weighted? (stub masses are all 1) ; two biases on the same variable ; two variables sharing atoms
jobs["twobias"] = HDR + colvar([("distance", b1)]) + SCALAR_BIAS["harmonic"] % {"c": "3.0", "hi": 0, "hi2": 0} + "harmonic {\n  name h2\n  colvars one\n  centers 5.0\n  forceConstant 0.3\n}\n"


# path components: reference frames are the five frames of the trajectory
for k in range(5):
    open(OUT + "/frame%d.xyz" % (k + 1), "w").writelines(lines[k * 106:(k + 1) * 106])
FR = "".join("    refPositionsFile%d %s/frame%d.xyz\n" % (k, OUT, k) for k in range(1, 6))
for kw, extra, c in (("gspath", "", "0.5"), ("gzpath", "", "0.5"), ("gzpath-sq", "    useZsquare on\n", "0.5"), ("gspath-3rd", "    useThirdClosestFrame on\n", "0.5"),
                     ("aspath", "    lambda 2.0\n", "0.5"), ("azpath", "    lambda 2.0\n", "0.5")):
    jobs["%s.plain.harmonic" % kw] = HDR + colvar([(kw, grp("atoms", "RMSD_atoms") + FR + extra)]) + SCALAR_BIAS["harmonic"] % {"c": c, "hi": 0, "hi2": 0}
    jobs["%s.fitatoms.harmonic" % kw] = HDR + colvar([(kw, grp("atoms", "RMSD_atoms") + "    fittingAtoms {\n      indexGroup heavy_atoms\n    }\n" + FR + extra)]) + SCALAR_BIAS["harmonic"] % {"c": c, "hi": 0, "hi2": 0}
sub = "    distance {\n      name d1\n  %s    }\n    angle {\n      name a1\n      componentCoeff 0.05\n  %s    }\n" % (
    b1.replace("\n", "\n  "), comps("plain")["angle"][0].replace("\n", "\n  "))
jobs["linearCombination.plain.harmonic"] = HDR + colvar([("linearCombination", sub)]) + SCALAR_BIAS["harmonic"] % {"c": "1.0", "hi": 0, "hi2": 0}
open(OUT + "/path.txt", "w").write("8.0 2.0\n10.0 2.5\n12.0 3.0\n14.0 3.5\n16.0 5.0\n")
for kw, extra in (("gspathCV", ""), ("gzpathCV", ""), ("gzpathCV-sq", "    useZsquare on\n"), ("aspathCV", "    lambda 0.5\n"), ("azpathCV", "    lambda 0.5\n")):
    jobs["%s.plain.harmonic" % kw] = HDR + colvar([(kw, sub + "    pathFile %s/path.txt\n" % OUT + extra)]) + SCALAR_BIAS["harmonic"] % {"c": "0.3", "hi": 0, "hi2": 0}
jobs["distancePairs.plain.histrestraint"] = HDR + colvar([("distancePairs", grp("group1", "group1") + grp("group2", "group5"))]) + \
    "histogramRestraint {\n  colvars one\n  lowerBoundary 0.0\n  upperBoundary 20.0\n  width 2.0\n  gaussianSigma 1.5\n  forceConstant 3.0\n  refHistogram 1.0 1.0 1.0 1.0 1.0 1.0 1.0 1.0 1.0 1.0\n}\n"
jobs.pop("distance.plain.histrestraint")
# history-dependent biases with frozen kernels: hills every 4 steps, 9 warm-up steps, evaluation at step 9
dcv = colvar([("distance", b1)], "  width 0.2\n  lowerBoundary 0.0\n  upperBoundary 30.0\n")
acv = ("colvar {\n  name two\n  width 2.0\n  lowerBoundary 0.0\n  upperBoundary 180.0\n  angle {\n%s  }\n}\n" % comps("fitgrp")["angle"][0])
jobs["meta.nogrid.W"] = HDR + dcv + "metadynamics {\n  colvars one\n  hillWeight 0.5\n  hillWidth 3.0\n  newHillFrequency 4\n  useGrids off\n}\n"
jobs["meta2d.nogrid.W"] = HDR + dcv + acv + "metadynamics {\n  colvars one two\n  hillWeight 0.5\n  hillWidth 3.0\n  newHillFrequency 4\n  useGrids off\n}\n"
jobs["meta.nogrid-wt.W"] = HDR + dcv + "metadynamics {\n  colvars one\n  hillWeight 0.5\n  hillWidth 3.0\n  newHillFrequency 4\n  useGrids off\n  wellTempered on\n  biasTemperature 2000\n}\n"
jobs["opes.W"] = HDR + dcv + "opes_metad {\n  colvars one\n  newHillFrequency 4\n  barrier 5.0\n  gaussianSigma 0.3\n}\n"
jobs["opes2d.W"] = HDR + dcv + acv + "opes_metad {\n  colvars one two\n  newHillFrequency 4\n  barrier 5.0\n  gaussianSigma 0.3 4.0\n}\n"
jobs["opes-nl.W"] = HDR + dcv + "opes_metad {\n  colvars one\n  newHillFrequency 4\n  barrier 5.0\n  gaussianSigma 0.3\n  neighborList on\n}\n"
jobs["opes-explore.W"] = HDR + dcv + "opes_metad {\n  colvars one\n  newHillFrequency 4\n  barrier 5.0\n  gaussianSigma 0.3\n  explore on\n  biasfactor 5\n}\n"


def run(item):
    name, text = item
    p = "%s/%s.in" % (OUT, name)
    open(p, "w").write(text)
    r = subprocess.run(["/tmp/replay/fd", "-f", "2", "-p", "0.3"] + (["-w", "9"] if name.endswith(".W") else []) + [ "-x", IN + "/trajectory.xyz", p], capture_output=True, text=True, cwd=OUT, timeout=900)
    open("%s/%s.log" % (OUT, name), "w").write(r.stdout + r.stderr)
    last = [l for l in r.stdout.splitlines() if l.startswith("fd:")]
    bad = [l for l in r.stdout.splitlines() if l.startswith("  atom")][:2]
    return name, r.returncode, (last[-1] if last else "?"), bad


only = sys.argv[1:] if len(sys.argv) > 1 else None
items = [(k, v) for k, v in jobs.items() if not only or any(o in k for o in only)]
print("%d configurations" % len(items))
with cf.ThreadPoolExecutor(16) as ex:
    res = list(ex.map(run, items))
for name, rc, last, bad in sorted(res):
    if rc != 0:
        print("%-42s rc=%d %s" % (name, rc, last))
        for b in bad:
            print("      " + b)
print("ok: %d / %d" % (sum(1 for r in res if r[1] == 0), len(res)))
