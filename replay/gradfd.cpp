// Triage-only harness (NOT part of any registered check): compares the atomic gradients a variable reports
// (colvar::atomic_gradients, what `cv colvar <name> getgradients` returns) with central differences of its value.
// usage: gradfd [-h step] [-t tol] [-p random_displacement] -x frame.xyz config
#include <iostream>
#include <fstream>
#include <string>
#include <vector>
#include <cmath>
#include <algorithm>
#include <cstdlib>
#include <iomanip>
#include "colvarmodule.h"
#include "colvar.h"
#include "colvarproxy.h"
#include "colvarproxy_stub.h"

struct gproxy : public colvarproxy_stub {
  void eval(std::vector<cvm::rvector> const &pos) {
    for (size_t i = 0; i < pos.size(); i++) atoms_positions[i] = pos[i];
    colvars->calc();
  }
  std::vector<cvm::rvector> atoms_new_colvar_forces_copy() { return atoms_new_colvar_forces; }
  void masses() { for (size_t i = 0; i < atoms_masses.size(); i++) atoms_masses[i] = 1.0 + 2.5 * double(i % 5); }
};

int main(int argc, char **argv) {
  double h = 1e-5, tol = 1e-4, pert = 0.0; std::string traj, conf;
  for (int i = 1; i < argc; i++) {
    std::string a = argv[i];
    if (a == "-h") h = atof(argv[++i]); else if (a == "-t") tol = atof(argv[++i]);
    else if (a == "-x") traj = argv[++i]; else if (a == "-p") pert = atof(argv[++i]); else conf = a;
  }
  gproxy *proxy = new gproxy();
  proxy->set_unit_system("real", false);
  { std::string b = conf; size_t sl = b.rfind('/'); if (sl != std::string::npos) b = b.substr(sl + 1); proxy->set_output_prefix("gradfd_" + b); }
  proxy->colvars->setup_input(); proxy->colvars->setup_output();
  std::ifstream ifs(traj); int natoms; ifs >> natoms; ifs.close();
  for (int ai = 0; ai < natoms; ai++) proxy->init_atom(ai + 1);
  proxy->masses();
  if (proxy->colvars->read_config_file(conf.c_str()) != COLVARS_OK || cvm::get_error()) { std::cout << "CONFIG-ERROR\n"; return 3; }
  proxy->colvars->load_coords_xyz(traj.c_str(), proxy->modify_atom_positions(), nullptr, true);
  std::vector<cvm::rvector> pos = *proxy->modify_atom_positions();
  if (pert > 0.0) {  // deterministic displacement away from the stored frame (reference structures)
    unsigned long long z = 88172645463325252ULL;
    for (size_t i = 0; i < pos.size(); i++) for (int d = 0; d < 3; d++) {
      z ^= z << 13; z ^= z >> 7; z ^= z << 17;
      pos[i][d] += pert * (double(z % 2000001ULL) / 1000000.0 - 1.0);
    }
  }
  int nbad = 0;
  std::cout << std::setprecision(12);
  for (colvar *cv : *(proxy->colvars->variables())) {
    cv->enable(colvardeps::f_cv_collect_gradient);
    proxy->eval(pos);
    std::vector<int> ids = cv->atom_ids;
    std::vector<cvm::rvector> g = cv->atomic_gradients;
    // what the engine received at the same step, divided by the force applied to the variable (single-variable configs)
    std::vector<cvm::rvector> applied = proxy->atoms_new_colvar_forces_copy();
    double fcv = cv->applied_force().real_value;
    double worst = 0.0;
    for (size_t k = 0; k < ids.size(); k++) {
      int ai = ids[k];   // proxy index == atom number - 1 == id
      for (int d = 0; d < 3; d++) {
        std::vector<cvm::rvector> p = pos; p[ai][d] += h; proxy->eval(p); double vp = cv->value().real_value;
        p[ai][d] -= 2 * h; proxy->eval(p); double vm = cv->value().real_value;
        double fd = (vp - vm) / (2 * h);
        if (getenv("GRADFD_DEBUG") && k == 0) std::cout << "    dbg atom " << ai + 1 << " d" << d << " vp=" << vp << " vm=" << vm << " pos=" << pos[ai][d] << "\n";
        double err = std::fabs(fd - g[k][d]);
        if (err > worst) worst = err;
        if (err > tol) { if (nbad < 6) std::cout << "  " << cv->name << " atom " << ai + 1 << " dim " << d << ": reported " << g[k][d] << " finite difference " << fd << " applied/f " << (fcv != 0.0 ? applied[ai][d] / fcv : 0.0) << "\n"; nbad++; }
      }
    }
    std::cout << cv->name << ": " << ids.size() << " atoms, worst |reported - FD| = " << worst << std::endl;
  }
  std::cout << (nbad ? "GRADFD: MISMATCH" : "GRADFD: OK") << std::endl;
  return nbad ? 1 : 0;
}
