// Triage-only harness (NOT part of any registered check): compares the atomic gradients a variable reports
// (colvar::atomic_gradients, what `cv colvar <name> getgradients` returns) with central differences of its value.
// usage: gradfd [-h step] [-t tol] -x frame.xyz config
#include <iostream>
#include <fstream>
#include <string>
#include <vector>
#include <cmath>
#include <algorithm>
#include "colvarmodule.h"
#include "colvar.h"
#include "colvarproxy.h"
#include "colvarproxy_stub.h"

struct gproxy : public colvarproxy_stub {
  void eval(std::vector<cvm::rvector> const &pos) {
    for (size_t i = 0; i < pos.size(); i++) atoms_positions[i] = pos[i];
    colvars->calc();
  }
  void masses() { for (size_t i = 0; i < atoms_masses.size(); i++) atoms_masses[i] = 1.0 + 2.5 * double(i % 5); }
};

int main(int argc, char **argv) {
  double h = 1e-5, tol = 1e-4; std::string traj, conf;
  for (int i = 1; i < argc; i++) {
    std::string a = argv[i];
    if (a == "-h") h = atof(argv[++i]); else if (a == "-t") tol = atof(argv[++i]);
    else if (a == "-x") traj = argv[++i]; else conf = a;
  }
  gproxy *proxy = new gproxy();
  proxy->set_unit_system("real", false);
  proxy->set_output_prefix(conf + ".out");
  proxy->colvars->setup_input(); proxy->colvars->setup_output();
  std::ifstream ifs(traj); int natoms; ifs >> natoms; ifs.close();
  for (int ai = 0; ai < natoms; ai++) proxy->init_atom(ai + 1);
  proxy->masses();
  if (proxy->colvars->read_config_file(conf.c_str()) != COLVARS_OK || cvm::get_error()) { std::cout << "CONFIG-ERROR\n"; return 3; }
  proxy->colvars->load_coords_xyz(traj.c_str(), proxy->modify_atom_positions(), nullptr, true);
  std::vector<cvm::rvector> pos = *proxy->modify_atom_positions();
  int nbad = 0;
  for (colvar *cv : *(proxy->colvars->variables())) {
    cv->enable(colvardeps::f_cv_collect_gradient);
    proxy->eval(pos);
    std::vector<int> ids = cv->atom_ids;
    std::vector<cvm::rvector> g = cv->atomic_gradients;
    double worst = 0.0;
    for (size_t k = 0; k < ids.size(); k++) {
      int ai = ids[k];   // proxy index == atom number - 1 == id
      for (int d = 0; d < 3; d++) {
        std::vector<cvm::rvector> p = pos; p[ai][d] += h; proxy->eval(p); double vp = cv->value().real_value;
        p[ai][d] -= 2 * h; proxy->eval(p); double vm = cv->value().real_value;
        double fd = (vp - vm) / (2 * h);
        double err = std::fabs(fd - g[k][d]);
        if (err > worst) worst = err;
        if (err > tol) { if (nbad < 6) std::cout << "  " << cv->name << " atom " << ai + 1 << " dim " << d << ": reported " << g[k][d] << " finite difference " << fd << "\n"; nbad++; }
      }
    }
    std::cout << cv->name << ": " << ids.size() << " atoms, worst |reported - FD| = " << worst << std::endl;
  }
  std::cout << (nbad ? "GRADFD: MISMATCH" : "GRADFD: OK") << std::endl;
  return nbad ? 1 : 0;
}
