// Triage-only replay driver (NOT part of any registered check): runs the real
// library with the stub proxy so a static report can be shown real or bogus.
// usage: driver [-T temp] [-i input_state_prefix] [-o output_prefix] [-x traj.xyz] [-s "script cmd"]... config
#include <iostream>
#include <fstream>
#include <sstream>
#include <string>
#include <vector>
#include <cstring>
#include "colvarmodule.h"
#include "colvarscript.h"
#include "colvarproxy.h"
#include "colvarproxy_stub.h"

static int script(std::string const &cmd) {
  std::istringstream is(cmd);
  std::vector<std::string> w; std::string t;
  while (is >> t) { for (auto &ch : t) if (ch == ',') ch = ' '; w.push_back(t); }   // "1,2,3" is passed as one argument "1 2 3"
  std::vector<unsigned char *> a;
  for (auto &s : w) a.push_back((unsigned char *) s.c_str());
  int rc = run_colvarscript_command((int) a.size(), a.data());
  std::cout << "script[" << cmd << "] rc=" << rc << " -> " << get_colvarscript_result() << std::endl;
  return rc;
}

int main(int argc, char **argv) {
  double T = 0.0; bool repeat = false; std::string in, out, traj, conf; std::vector<std::string> pre, post;
  for (int i = 1; i < argc; i++) {
    std::string a = argv[i];
    if (a == "-T") T = atof(argv[++i]);
    else if (a == "-i") in = argv[++i];
    else if (a == "-o") out = argv[++i];
    else if (a == "-x") traj = argv[++i];
    else if (a == "-s") post.push_back(argv[++i]);
    else if (a == "-S") pre.push_back(argv[++i]);
    else if (a == "-r") repeat = true;   // the first frame repeats the step of the loaded state, as MD engines do
    else conf = a;
  }
  int err = 0;
  colvarproxy_stub *proxy = new colvarproxy_stub();
  err |= proxy->set_unit_system("real", false);
  if (T > 0.0) proxy->set_target_temperature(T);
  if (out.size()) err |= proxy->set_output_prefix(out);
  // the state is loaded after the configuration has been read (below)
  err |= proxy->colvars->setup_input();
  err |= proxy->colvars->setup_output();
  if (in.size()) err |= proxy->set_input_prefix(in);
  if (conf.size()) err |= proxy->colvars->read_config_file(conf.c_str());
  for (auto &s : pre) script(s);
  if (in.size()) err |= proxy->colvars->setup_input();
  if (repeat) proxy->colvars->it--;
  if (traj.size()) {
    std::ifstream ifs(traj); int natoms; ifs >> natoms; ifs.close();
    for (int ai = 0; ai < natoms; ai++) proxy->init_atom(ai + 1);
    int io_err = 0;
    while (!io_err) io_err = proxy->read_frame_xyz(traj.c_str());
    proxy->post_run();
  }
  for (auto &s : post) script(s);
  std::cout << "driver: err=" << err << " module_error=" << cvm::get_error() << std::endl;
  delete proxy;
  return err ? 5 : 0;
}
