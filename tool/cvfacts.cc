// cvfacts: libTooling fact extractor for the Colvars static checks.
//
// For one translation unit it writes one JSON file containing, for every
// function *defined in a file under the given root* (including implicit template
// instantiations and lambda call operators):
//   - identity (mangled name, qualified name, class, virtual/override links)
//   - the type-resolved statement/expression tree of the body (compact)
//   - the clang::CFG skeleton (blocks, elements as node ids, terminator,
//     terminator condition, ordered successors, case labels, handler flag)
// plus class hierarchy, enums, and preprocessor-skipped regions.
//
// Nothing here decides a property; rule engines in /verif/cvverif do.
//
// usage: cvfacts -o out.json -root /repo/ file.cpp -- <compile flags>

#include "clang/AST/ASTConsumer.h"
#include "clang/AST/ASTContext.h"
#include "clang/AST/DeclCXX.h"
#include "clang/AST/DeclTemplate.h"
#include "clang/AST/ExprCXX.h"
#include "clang/AST/ExprOpenMP.h"
#include "clang/AST/Mangle.h"
#include "clang/AST/RecursiveASTVisitor.h"
#include "clang/AST/StmtCXX.h"
#include "clang/AST/StmtOpenMP.h"
#include "clang/Analysis/CFG.h"
#include "clang/Frontend/CompilerInstance.h"
#include "clang/Frontend/FrontendAction.h"
#include "clang/Lex/PPCallbacks.h"
#include "clang/Lex/Preprocessor.h"
#include "clang/Tooling/CommonOptionsParser.h"
#include "clang/Tooling/Tooling.h"
#include "llvm/Support/CommandLine.h"
#include "llvm/Support/JSON.h"
#include "llvm/Support/raw_ostream.h"

#include <map>
#include <set>
#include <string>
#include <vector>

using namespace clang;
using namespace clang::tooling;

static llvm::cl::OptionCategory Cat("cvfacts options");
static llvm::cl::opt<std::string> OutPath("o", llvm::cl::desc("output json"),
                                          llvm::cl::Required, llvm::cl::cat(Cat));
static llvm::cl::opt<std::string> RootPath("root", llvm::cl::desc("source root prefix"),
                                           llvm::cl::init("/repo/"), llvm::cl::cat(Cat));

namespace {

struct SkippedRange { std::string file; unsigned b, e; };

struct Ctx {
  ASTContext *AC = nullptr;
  SourceManager *SM = nullptr;
  std::unique_ptr<MangleContext> MC;
  PrintingPolicy PP{LangOptions()};
  std::map<std::string, int> typeIdx;
  std::vector<std::string> types;
  std::map<const Decl *, int> declIds;
  std::vector<SkippedRange> skipped;
  std::string mainFile;

  int typeId(QualType T) {
    if (T.isNull()) return -1;
    std::string s = T.getCanonicalType().getAsString(PP);
    auto it = typeIdx.find(s);
    if (it != typeIdx.end()) return it->second;
    int id = (int)types.size();
    types.push_back(s);
    typeIdx[s] = id;
    return id;
  }
  int declId(const Decl *D) {
    D = D->getCanonicalDecl();
    auto it = declIds.find(D);
    if (it != declIds.end()) return it->second;
    int id = (int)declIds.size() + 1;
    declIds[D] = id;
    return id;
  }
  std::string fileOf(SourceLocation L) {
    if (L.isInvalid()) return "";
    L = SM->getExpansionLoc(L);
    auto F = SM->getFilename(L);
    return F.str();
  }
  unsigned lineOf(SourceLocation L) {
    if (L.isInvalid()) return 0;
    return SM->getExpansionLineNumber(L);
  }
  bool inRoot(SourceLocation L) {
    std::string f = fileOf(L);
    return f.compare(0, RootPath.size(), RootPath) == 0;
  }
  std::string mangled(const FunctionDecl *FD) {
    std::string s;
    llvm::raw_string_ostream os(s);
    if (FD->isDependentContext() || FD->getDescribedFunctionTemplate()) {
      return "dep:" + FD->getQualifiedNameAsString();
    }
    if (auto *C = dyn_cast<CXXConstructorDecl>(FD))
      MC->mangleName(GlobalDecl(C, Ctor_Complete), os);
    else if (auto *D = dyn_cast<CXXDestructorDecl>(FD))
      MC->mangleName(GlobalDecl(D, Dtor_Complete), os);
    else if (MC->shouldMangleDeclName(FD))
      MC->mangleName(GlobalDecl(FD), os);
    else
      os << FD->getQualifiedNameAsString();
    os.flush();
    if (!FD->isExternallyVisible()) {
      // internal linkage / lambdas in internal functions: make TU-unique
      std::string base = mainFile;
      auto p = base.find_last_of('/');
      if (p != std::string::npos) base = base.substr(p + 1);
      s = base + ":" + s;
    }
    return s;
  }
  std::string qname(const NamedDecl *D) { return D->getQualifiedNameAsString(); }
  // class name with template arguments (canonical type spelling)
  std::string cname(const CXXRecordDecl *RD) {
    return AC->getRecordType(RD).getCanonicalType().getAsString(PP);
  }
};

static bool isTransparent(const Stmt *S) {
  if (isa<ParenExpr>(S) || isa<ExprWithCleanups>(S) || isa<MaterializeTemporaryExpr>(S) ||
      isa<CXXBindTemporaryExpr>(S) || isa<ConstantExpr>(S) || isa<SubstNonTypeTemplateParmExpr>(S))
    return true;
  if (auto *IC = dyn_cast<ImplicitCastExpr>(S)) {
    switch (IC->getCastKind()) {
    case CK_LValueToRValue:
    case CK_NoOp:
    case CK_FunctionToPointerDecay:
    case CK_ArrayToPointerDecay:
    case CK_BuiltinFnToFnPtr:
      return true;
    default:
      return false;
    }
  }
  return false;
}

static const Stmt *innerOf(const Stmt *S) {
  if (auto *P = dyn_cast<ParenExpr>(S)) return P->getSubExpr();
  if (auto *P = dyn_cast<ExprWithCleanups>(S)) return P->getSubExpr();
  if (auto *P = dyn_cast<MaterializeTemporaryExpr>(S)) return P->getSubExpr();
  if (auto *P = dyn_cast<CXXBindTemporaryExpr>(S)) return P->getSubExpr();
  if (auto *P = dyn_cast<ConstantExpr>(S)) return P->getSubExpr();
  if (auto *P = dyn_cast<SubstNonTypeTemplateParmExpr>(S)) return P->getReplacement();
  if (auto *P = dyn_cast<ImplicitCastExpr>(S)) return P->getSubExpr();
  return nullptr;
}

struct FuncEmitter {
  Ctx &C;
  llvm::json::OStream &J;
  std::map<const Stmt *, int> ids;
  int nextId = 0;
  std::vector<const LambdaExpr *> lambdas;

  FuncEmitter(Ctx &c, llvm::json::OStream &j) : C(c), J(j) {}

  void storageAttr(const VarDecl *VD) {
    const char *st = "local";
    if (isa<ParmVarDecl>(VD)) st = "param";
    else if (VD->isStaticDataMember()) st = "static_member";
    else if (VD->isStaticLocal()) st = "static_local";
    else if (VD->hasGlobalStorage()) st = "global";
    J.attribute("st", st);
  }

  void emitChildOrNull(const Stmt *S) {
    if (!S) J.value(nullptr);
    else emit(S);
  }

  void emitVarDecl(const VarDecl *VD) {
    J.object([&] {
      J.attribute("i", nextId++);
      J.attribute("k", "VarDecl");
      J.attribute("n", VD->getNameAsString());
      J.attribute("d", C.declId(VD));
      J.attribute("t", C.typeId(VD->getType()));
      J.attribute("l", C.lineOf(VD->getLocation()));
      storageAttr(VD);
      if (VD->getType().isConstQualified()) J.attribute("const", true);
      if (VD->getType()->isReferenceType()) J.attribute("ref", true);
      J.attributeArray("c", [&] {
        if (VD->hasInit()) emit(VD->getInit());
      });
    });
  }

  void calleeAttrs(const FunctionDecl *FD) {
    if (!FD) return;
    J.attribute("callee", C.mangled(FD));
    J.attribute("cq", C.qname(FD));
    if (auto *MD = dyn_cast<CXXMethodDecl>(FD)) {
      if (MD->isConst()) J.attribute("cconst", true);
      if (MD->isStatic()) J.attribute("cstatic", true);
    }
  }

  void emit(const Stmt *S) {
    // collapse transparent wrappers
    const Stmt *Outer = S;
    std::vector<const Stmt *> wrappers;
    while (S && isTransparent(S)) {
      wrappers.push_back(S);
      S = innerOf(S);
    }
    if (!S) { J.value(nullptr); return; }
    int myId = nextId++;
    ids[S] = myId;
    for (auto *W : wrappers) ids[W] = myId;
    (void)Outer;

    J.object([&] {
      J.attribute("i", myId);
      J.attribute("k", S->getStmtClassName());
      J.attribute("l", C.lineOf(S->getBeginLoc()));
      if (auto *E = dyn_cast<Expr>(S)) {
        J.attribute("t", C.typeId(E->getType()));
      }
      bool customChildren = false;

      if (auto *DR = dyn_cast<DeclRefExpr>(S)) {
        const ValueDecl *D = DR->getDecl();
        J.attribute("n", D->getNameAsString());
        J.attribute("dk", D->getDeclKindName());
        if (auto *VD = dyn_cast<VarDecl>(D)) {
          J.attribute("d", C.declId(VD));
          storageAttr(VD);
          if (VD->hasGlobalStorage()) J.attribute("q", C.qname(VD));
          if (VD->getType().isConstQualified()) J.attribute("const", true);
          if (VD->getType().isConstQualified() && VD->getType()->isIntegralOrEnumerationType() &&
              !DR->isValueDependent()) {
            Expr::EvalResult R;
            if (DR->EvaluateAsInt(R, *C.AC)) J.attribute("v", R.Val.getInt().getExtValue());
          }
        } else if (auto *FD = dyn_cast<FunctionDecl>(D)) {
          J.attribute("m", C.mangled(FD));
          J.attribute("q", C.qname(FD));
        } else if (auto *EC = dyn_cast<EnumConstantDecl>(D)) {
          J.attribute("q", C.qname(EC));
          J.attribute("v", EC->getInitVal().getExtValue());
        } else if (isa<BindingDecl>(D)) {
          J.attribute("d", C.declId(D));
        }
      } else if (auto *ME = dyn_cast<MemberExpr>(S)) {
        const ValueDecl *D = ME->getMemberDecl();
        J.attribute("n", D->getNameAsString());
        J.attribute("q", C.qname(D));
        J.attribute("dk", D->getDeclKindName());
        if (ME->isArrow()) J.attribute("arrow", true);
        if (ME->hasQualifier()) J.attribute("qual", true);
        if (auto *FD = dyn_cast<FunctionDecl>(D)) J.attribute("m", C.mangled(FD));
        if (auto *VD = dyn_cast<VarDecl>(D)) {  // static member accessed via object
          J.attribute("d", C.declId(VD));
          J.attribute("st", "static_member");
        }
      } else if (auto *CE = dyn_cast<CallExpr>(S)) {
        const FunctionDecl *FD = CE->getDirectCallee();
        calleeAttrs(FD);
        if (auto *MC = dyn_cast<CXXMemberCallExpr>(CE)) {
          if (auto *MD = MC->getMethodDecl()) {
            bool virt = MD->isVirtual();
            if (auto *ME = dyn_cast<MemberExpr>(MC->getCallee()->IgnoreParens()))
              if (ME->hasQualifier()) virt = false;
            if (virt) J.attribute("virt", true);
          }
          if (const CXXRecordDecl *RD = MC->getRecordDecl())
            J.attribute("rc", C.cname(RD));
        }
        if (auto *OC = dyn_cast<CXXOperatorCallExpr>(CE)) {
          J.attribute("op", getOperatorSpelling(OC->getOperator()));
        }
        // constant arguments
        std::vector<std::pair<unsigned, int64_t>> cargs;
        for (unsigned a = 0; a < CE->getNumArgs(); ++a) {
          const Expr *A = CE->getArg(a);
          if (A->isValueDependent() || A->getType().isNull()) continue;
          if (!A->getType()->isIntegralOrEnumerationType()) continue;
          Expr::EvalResult R;
          if (A->EvaluateAsInt(R, *C.AC)) cargs.push_back({a, R.Val.getInt().getExtValue()});
        }
        if (FD) {
          unsigned off = (isa<CXXOperatorCallExpr>(CE) && isa<CXXMethodDecl>(FD)) ? 1 : 0;
          std::vector<int64_t> refs;
          for (unsigned a = off; a < CE->getNumArgs(); ++a) {
            unsigned pi = a - off;
            if (pi >= FD->getNumParams()) break;
            QualType PT = FD->getParamDecl(pi)->getType();
            if (PT->isLValueReferenceType() && !PT->getPointeeType().isConstQualified())
              refs.push_back(a);
          }
          if (!refs.empty()) {
            J.attributeArray("refargs", [&] { for (auto r : refs) J.value(r); });
          }
        }
        if (!cargs.empty()) {
          J.attributeArray("cargs", [&] {
            for (auto &p : cargs) J.array([&] { J.value((int64_t)p.first); J.value(p.second); });
          });
        }
      } else if (auto *CC = dyn_cast<CXXConstructExpr>(S)) {
        calleeAttrs(CC->getConstructor());
        J.attribute("rc", C.cname(CC->getConstructor()->getParent()));
        {
          const FunctionDecl *FD = CC->getConstructor();
          std::vector<int64_t> refs;
          for (unsigned a = 0; a < CC->getNumArgs() && a < FD->getNumParams(); ++a) {
            QualType PT = FD->getParamDecl(a)->getType();
            if (PT->isLValueReferenceType() && !PT->getPointeeType().isConstQualified())
              refs.push_back(a);
          }
          if (!refs.empty()) {
            J.attributeArray("refargs", [&] { for (auto r : refs) J.value(r); });
          }
        }
      } else if (auto *NE = dyn_cast<CXXNewExpr>(S)) {
        J.attribute("at", C.typeId(NE->getAllocatedType()));
        if (NE->isArray()) J.attribute("array", true);
      } else if (auto *DE = dyn_cast<CXXDeleteExpr>(S)) {
        if (DE->isArrayForm()) J.attribute("array", true);
      } else if (auto *BO = dyn_cast<BinaryOperator>(S)) {
        J.attribute("op", BO->getOpcodeStr());
      } else if (auto *UO = dyn_cast<UnaryOperator>(S)) {
        std::string op = UnaryOperator::getOpcodeStr(UO->getOpcode()).str();
        if (UO->isPostfix()) op = "post" + op;
        J.attribute("op", op);
      } else if (auto *IL = dyn_cast<IntegerLiteral>(S)) {
        J.attribute("v", IL->getValue().getLimitedValue());
      } else if (auto *FL = dyn_cast<FloatingLiteral>(S)) {
        J.attribute("v", FL->getValueAsApproximateDouble());
      } else if (auto *SL = dyn_cast<StringLiteral>(S)) {
        if (SL->isAscii() || SL->isUTF8()) J.attribute("v", SL->getString());
      } else if (auto *BL = dyn_cast<CXXBoolLiteralExpr>(S)) {
        J.attribute("v", BL->getValue());
      } else if (auto *CL = dyn_cast<CharacterLiteral>(S)) {
        J.attribute("v", (int64_t)CL->getValue());
      } else if (auto *CA = dyn_cast<CastExpr>(S)) {
        J.attribute("ck", CA->getCastKindName());
        if (isa<ImplicitCastExpr>(CA)) J.attribute("impl", true);
      } else if (auto *UE = dyn_cast<UnaryExprOrTypeTraitExpr>(S)) {
        J.attribute("ue", getTraitSpelling(UE->getKind()));
        J.attribute("at", C.typeId(UE->getTypeOfArgument()));
        Expr::EvalResult R;
        if (!UE->isValueDependent() && UE->EvaluateAsInt(R, *C.AC))
          J.attribute("v", R.Val.getInt().getExtValue());
      } else if (auto *CS = dyn_cast<CaseStmt>(S)) {
        Expr::EvalResult R;
        if (CS->getLHS() && !CS->getLHS()->isValueDependent() &&
            CS->getLHS()->EvaluateAsInt(R, *C.AC))
          J.attribute("v", R.Val.getInt().getExtValue());
      } else if (auto *CT = dyn_cast<CXXCatchStmt>(S)) {
        if (CT->getExceptionDecl())
          J.attribute("ct", C.typeId(CT->getCaughtType()));
        else
          J.attribute("ct", -2);  // catch (...)
      } else if (auto *LE = dyn_cast<LambdaExpr>(S)) {
        if (auto *MD = LE->getCallOperator()) J.attribute("m", C.mangled(MD));
        lambdas.push_back(LE);
      } else if (auto *TE = dyn_cast<CXXTemporaryObjectExpr>(S)) {
        (void)TE;
      } else if (auto *OD = dyn_cast<OMPExecutableDirective>(S)) {
        J.attributeArray("clauses", [&] {
          for (auto *Cl : OD->clauses())
            J.value(llvm::omp::getOpenMPClauseName(Cl->getClauseKind()));
        });
      }

      // children
      J.attributeArray("c", [&] {
        if (auto *IS = dyn_cast<IfStmt>(S)) {
          customChildren = true;
          if (IS->getConditionVariableDeclStmt()) emit(IS->getConditionVariableDeclStmt());
          emitChildOrNull(IS->getCond());
          emitChildOrNull(IS->getThen());
          emitChildOrNull(IS->getElse());
        } else if (auto *FS = dyn_cast<ForStmt>(S)) {
          customChildren = true;
          emitChildOrNull(FS->getInit());
          emitChildOrNull(FS->getCond());
          emitChildOrNull(FS->getInc());
          emitChildOrNull(FS->getBody());
        } else if (auto *WS = dyn_cast<WhileStmt>(S)) {
          customChildren = true;
          emitChildOrNull(WS->getCond());
          emitChildOrNull(WS->getBody());
        } else if (auto *DS = dyn_cast<DoStmt>(S)) {
          customChildren = true;
          emitChildOrNull(DS->getBody());
          emitChildOrNull(DS->getCond());
        } else if (auto *RS = dyn_cast<CXXForRangeStmt>(S)) {
          customChildren = true;
          emitChildOrNull(RS->getLoopVarStmt());
          emitChildOrNull(RS->getRangeInit());
          emitChildOrNull(RS->getBody());
        } else if (auto *DS2 = dyn_cast<DeclStmt>(S)) {
          customChildren = true;
          for (auto *D : DS2->decls()) {
            if (auto *VD = dyn_cast<VarDecl>(D)) emitVarDecl(VD);
          }
        } else if (auto *LE = dyn_cast<LambdaExpr>(S)) {
          customChildren = true;
          for (auto *I : LE->capture_inits())
            if (I) emit(I);
        } else if (auto *CS = dyn_cast<CaseStmt>(S)) {
          customChildren = true;
          emitChildOrNull(CS->getLHS());
          emitChildOrNull(CS->getSubStmt());
        } else if (auto *DA = dyn_cast<CXXDefaultArgExpr>(S)) {
          customChildren = true;
          if (DA->getExpr()) emit(DA->getExpr());
        } else if (auto *DI = dyn_cast<CXXDefaultInitExpr>(S)) {
          customChildren = true;
          if (DI->getExpr()) emit(DI->getExpr());
        } else if (auto *OD = dyn_cast<OMPExecutableDirective>(S)) {
          customChildren = true;
          if (OD->hasAssociatedStmt()) {
            const Stmt *A = OD->getAssociatedStmt();
            while (auto *CSx = dyn_cast_or_null<CapturedStmt>(A)) A = CSx->getCapturedStmt();
            if (A) emit(A);
          }
        } else if (auto *CO = dyn_cast<ConditionalOperator>(S)) {
          customChildren = true;
          emitChildOrNull(CO->getCond());
          emitChildOrNull(CO->getTrueExpr());
          emitChildOrNull(CO->getFalseExpr());
        }
        if (!customChildren) {
          for (const Stmt *Ch : S->children()) {
            if (Ch) emit(Ch);
          }
        }
      });
    });
  }
};

struct Collector : RecursiveASTVisitor<Collector> {
  Ctx &C;
  std::vector<const FunctionDecl *> funcs;
  std::vector<const CXXRecordDecl *> classes;
  std::vector<const EnumDecl *> enums;
  std::vector<const VarDecl *> globals;
  std::set<const Decl *> seen;

  explicit Collector(Ctx &c) : C(c) {}
  bool shouldVisitTemplateInstantiations() const { return true; }
  bool shouldVisitImplicitCode() const { return false; }
  bool shouldVisitLambdaBody() const { return true; }

  bool VisitFunctionDecl(FunctionDecl *FD) {
    if (!FD->doesThisDeclarationHaveABody()) return true;
    if (FD->isDependentContext()) return true;
    if (FD->isImplicit()) {
      auto *MD = dyn_cast<CXXMethodDecl>(FD);
      if (!(MD && MD->getParent()->isLambda())) return true;
    }
    if (!C.inRoot(FD->getLocation())) return true;
    if (seen.insert(FD).second) funcs.push_back(FD);
    return true;
  }
  bool VisitCXXRecordDecl(CXXRecordDecl *RD) {
    if (!RD->isThisDeclarationADefinition()) return true;
    if (RD->isDependentContext()) return true;
    if (RD->isLambda()) return true;
    if (!C.inRoot(RD->getLocation())) return true;
    if (seen.insert(RD).second) classes.push_back(RD);
    return true;
  }
  bool VisitEnumDecl(EnumDecl *ED) {
    if (!ED->isThisDeclarationADefinition()) return true;
    if (!C.inRoot(ED->getLocation())) return true;
    if (ED->isDependentContext()) return true;
    if (seen.insert(ED).second) enums.push_back(ED);
    return true;
  }
  bool VisitVarDecl(VarDecl *VD) {
    if (!VD->hasGlobalStorage() || VD->isStaticLocal()) return true;
    if (!C.inRoot(VD->getLocation())) return true;
    if (VD->getDeclContext()->isDependentContext()) return true;
    if (!VD->isThisDeclarationADefinition()) return true;
    if (seen.insert(VD).second) globals.push_back(VD);
    return true;
  }
};

class SkipCB : public PPCallbacks {
  Ctx &C;
public:
  explicit SkipCB(Ctx &c) : C(c) {}
  void SourceRangeSkipped(SourceRange R, SourceLocation) override {
    if (!C.SM) return;
    std::string f = C.SM->getFilename(C.SM->getExpansionLoc(R.getBegin())).str();
    if (f.compare(0, RootPath.size(), RootPath) != 0) return;
    C.skipped.push_back({f, C.SM->getExpansionLineNumber(R.getBegin()),
                         C.SM->getExpansionLineNumber(R.getEnd())});
  }
};

class Consumer : public ASTConsumer {
  Ctx &C;
public:
  explicit Consumer(Ctx &c) : C(c) {}

  void emitFunction(llvm::json::OStream &J, const FunctionDecl *FD) {
    J.object([&] {
      J.attribute("m", C.mangled(FD));
      J.attribute("q", C.qname(FD));
      J.attribute("name", FD->getNameAsString());
      J.attribute("file", C.fileOf(FD->getLocation()));
      J.attribute("line", C.lineOf(FD->getLocation()));
      J.attribute("endline", C.lineOf(FD->getEndLoc()));
      J.attribute("ret", C.typeId(FD->getReturnType()));
      if (FD->isTemplateInstantiation()) J.attribute("inst", true);
      if (!FD->isExternallyVisible()) J.attribute("internal", true);
      if (auto *MD = dyn_cast<CXXMethodDecl>(FD)) {
        const CXXRecordDecl *P = MD->getParent();
        if (P->isLambda()) {
          J.attribute("lambda", true);
          // enclosing function
          const DeclContext *DC = P->getDeclContext();
          while (DC && !isa<FunctionDecl>(DC)) DC = DC->getParent();
          if (DC) J.attribute("lambda_in", C.mangled(cast<FunctionDecl>(DC)));
        } else {
          J.attribute("cls", C.cname(P));
        }
        if (MD->isVirtual()) J.attribute("virtual", true);
        if (MD->isConst()) J.attribute("const", true);
        if (MD->isStatic()) J.attribute("static", true);
        if (isa<CXXConstructorDecl>(MD)) J.attribute("ctor", true);
        if (isa<CXXDestructorDecl>(MD)) J.attribute("dtor", true);
        if (MD->size_overridden_methods()) {
          J.attributeArray("overrides", [&] {
            for (auto *O : MD->overridden_methods()) J.value(C.mangled(O));
          });
        }
      }
      J.attributeArray("params", [&] {
        for (auto *P : FD->parameters()) {
          J.object([&] {
            J.attribute("n", P->getNameAsString());
            J.attribute("d", C.declId(P));
            J.attribute("t", C.typeId(P->getType()));
            if (P->hasDefaultArg() && !P->hasUninstantiatedDefaultArg() &&
                !P->hasUnparsedDefaultArg()) {
              const Expr *DA = P->getDefaultArg();
              Expr::EvalResult R;
              if (DA && !DA->isValueDependent() &&
                  DA->getType()->isIntegralOrEnumerationType() &&
                  DA->EvaluateAsInt(R, *C.AC))
                J.attribute("defv", R.Val.getInt().getExtValue());
              else
                J.attribute("def", true);
            }
          });
        }
      });

      FuncEmitter FE(C, J);
      // ctor initializers
      if (auto *CD = dyn_cast<CXXConstructorDecl>(FD)) {
        J.attributeArray("inits", [&] {
          for (auto *I : CD->inits()) {
            if (!I->isWritten() && !I->isAnyMemberInitializer() && !I->isBaseInitializer()) continue;
            J.object([&] {
              if (I->isAnyMemberInitializer()) {
                J.attribute("member", I->getAnyMember()->getNameAsString());
                J.attribute("mq", C.qname(I->getAnyMember()));
              } else if (I->isBaseInitializer()) {
                J.attribute("base", C.typeId(QualType(I->getBaseClass(), 0)));
              } else if (I->isDelegatingInitializer()) {
                J.attribute("delegating", true);
              }
              if (I->isWritten()) J.attribute("written", true);
              J.attributeBegin("init");
              if (I->getInit()) FE.emit(I->getInit()); else J.value(nullptr);
              J.attributeEnd();
            });
          }
        });
      }
      J.attributeBegin("body");
      FE.emit(FD->getBody());
      J.attributeEnd();

      // CFG
      CFG::BuildOptions BO;
      BO.setAllAlwaysAdd();
      BO.PruneTriviallyFalseEdges = false;
      BO.AddInitializers = true;
      BO.AddEHEdges = false;
      BO.AddImplicitDtors = false;
      BO.AddTemporaryDtors = false;
      std::unique_ptr<CFG> G = CFG::buildCFG(FD, FD->getBody(), C.AC, BO);
      if (!G) {
        J.attribute("cfg", nullptr);
      } else {
        J.attributeObject("cfg", [&] {
          J.attribute("entry", (int64_t)G->getEntry().getBlockID());
          J.attribute("exit", (int64_t)G->getExit().getBlockID());
          J.attributeArray("blocks", [&] {
            for (const CFGBlock *B : *G) {
              J.object([&] {
                J.attribute("id", (int64_t)B->getBlockID());
                J.attributeArray("e", [&] {
                  int last = -1;
                  for (const CFGElement &E : *B) {
                    const Stmt *S = nullptr;
                    if (auto CS = E.getAs<CFGStmt>()) S = CS->getStmt();
                    else if (auto CI = E.getAs<CFGInitializer>()) S = CI->getInitializer()->getInit();
                    if (!S) continue;
                    auto it = FE.ids.find(S);
                    if (it == FE.ids.end()) continue;
                    if (it->second == last) continue;
                    last = it->second;
                    J.value(last);
                  }
                });
                if (const Stmt *T = B->getTerminatorStmt()) {
                  auto it = FE.ids.find(T);
                  if (it != FE.ids.end()) J.attribute("term", it->second);
                  J.attribute("tk", T->getStmtClassName());
                }
                if (const Stmt *TC = B->getTerminatorCondition(false)) {
                  auto it = FE.ids.find(TC);
                  if (it != FE.ids.end()) J.attribute("cond", it->second);
                }
                if (const Stmt *L = B->getLabel()) {
                  auto it = FE.ids.find(L);
                  if (it != FE.ids.end()) J.attribute("label", it->second);
                  J.attribute("lk", L->getStmtClassName());
                  if (isa<CXXCatchStmt>(L)) J.attribute("handler", true);
                }
                if (B->hasNoReturnElement()) J.attribute("noreturn", true);
                J.attributeArray("s", [&] {
                  for (auto I = B->succ_begin(); I != B->succ_end(); ++I) {
                    const CFGBlock *SB = I->getReachableBlock();
                    if (!SB) SB = I->getPossiblyUnreachableBlock();
                    if (SB) J.value((int64_t)SB->getBlockID());
                    else J.value(nullptr);
                  }
                });
              });
            }
          });
        });
      }
    });
  }

  void HandleTranslationUnit(ASTContext &AC) override {
    C.AC = &AC;
    C.SM = &AC.getSourceManager();
    C.MC.reset(AC.createMangleContext());
    C.PP = PrintingPolicy(AC.getLangOpts());
    C.PP.SuppressTagKeyword = true;
    C.PP.Bool = true;
    C.PP.SuppressUnwrittenScope = true;
    if (AC.getDiagnostics().hasErrorOccurred()) {
      llvm::errs() << "cvfacts: parse errors in " << C.mainFile << "\n";
      return;  // leave no output: driver treats as analysis-broken
    }

    Collector Col(C);
    Col.TraverseDecl(AC.getTranslationUnitDecl());

    std::error_code EC;
    llvm::raw_fd_ostream OS(OutPath, EC);
    if (EC) { llvm::errs() << "cvfacts: cannot write " << OutPath << "\n"; return; }
    llvm::json::OStream J(OS);
    J.object([&] {
      J.attribute("tu", C.mainFile);
      J.attributeArray("functions", [&] {
        for (auto *FD : Col.funcs) emitFunction(J, FD);
      });
      J.attributeArray("classes", [&] {
        for (auto *RD : Col.classes) {
          J.object([&] {
            J.attribute("q", C.cname(RD));
            J.attribute("file", C.fileOf(RD->getLocation()));
            J.attribute("line", C.lineOf(RD->getLocation()));
            if (isa<ClassTemplateSpecializationDecl>(RD)) J.attribute("inst", true);
            J.attribute("tname", C.types[C.typeId(AC.getRecordType(RD))]);
            J.attributeArray("bases", [&] {
              for (auto &B : RD->bases()) {
                if (auto *BD = B.getType()->getAsCXXRecordDecl()) J.value(C.cname(BD));
              }
            });
            J.attributeArray("fields", [&] {
              for (auto *F : RD->fields()) {
                J.object([&] {
                  J.attribute("n", F->getNameAsString());
                  J.attribute("t", C.typeId(F->getType()));
                });
              }
              for (auto *D : RD->decls()) {
                if (auto *VD = dyn_cast<VarDecl>(D)) {
                  if (VD->isStaticDataMember()) {
                    J.object([&] {
                      J.attribute("n", VD->getNameAsString());
                      J.attribute("t", C.typeId(VD->getType()));
                      J.attribute("static", true);
                    });
                  }
                }
              }
            });
            J.attributeArray("methods", [&] {
              for (auto *M : RD->methods()) {
                if (M->isImplicit()) continue;
                J.object([&] {
                  J.attribute("m", C.mangled(M));
                  J.attribute("n", M->getNameAsString());
                  if (M->isVirtual()) J.attribute("virtual", true);
                  if (M->isPure()) J.attribute("pure", true);
                  if (M->isConst()) J.attribute("const", true);
                  if (M->isStatic()) J.attribute("static", true);
                  if (M->size_overridden_methods()) {
                    J.attributeArray("overrides", [&] {
                      for (auto *O : M->overridden_methods()) J.value(C.mangled(O));
                    });
                  }
                });
              }
            });
          });
        }
      });
      J.attributeArray("enums", [&] {
        for (auto *ED : Col.enums) {
          J.object([&] {
            J.attribute("q", C.qname(ED));
            J.attribute("file", C.fileOf(ED->getLocation()));
            J.attribute("tname", C.types[C.typeId(AC.getEnumType(ED))]);
            J.attributeArray("items", [&] {
              for (auto *E : ED->enumerators()) {
                J.array([&] {
                  J.value(E->getNameAsString());
                  J.value(E->getInitVal().getExtValue());
                });
              }
            });
          });
        }
      });
      J.attributeArray("globals", [&] {
        for (auto *VD : Col.globals) {
          J.object([&] {
            J.attribute("q", C.qname(VD));
            J.attribute("t", C.typeId(VD->getType()));
            J.attribute("file", C.fileOf(VD->getLocation()));
            J.attribute("line", C.lineOf(VD->getLocation()));
            if (VD->isStaticDataMember()) J.attribute("static_member", true);
          });
        }
      });
      J.attributeArray("skipped", [&] {
        for (auto &S : C.skipped) {
          J.array([&] { J.value(S.file); J.value((int64_t)S.b); J.value((int64_t)S.e); });
        }
      });
      J.attributeArray("types", [&] {
        for (auto &T : C.types) J.value(T);
      });
    });
    OS.flush();
  }
};

class Action : public ASTFrontendAction {
  Ctx C;
public:
  std::unique_ptr<ASTConsumer> CreateASTConsumer(CompilerInstance &CI, StringRef File) override {
    C.mainFile = File.str();
    C.SM = &CI.getSourceManager();
    CI.getPreprocessor().addPPCallbacks(std::make_unique<SkipCB>(C));
    return std::make_unique<Consumer>(C);
  }
};

}  // namespace

int main(int argc, const char **argv) {
  auto Exp = CommonOptionsParser::create(argc, argv, Cat);
  if (!Exp) {
    llvm::errs() << llvm::toString(Exp.takeError()) << "\n";
    return 2;
  }
  CommonOptionsParser &OP = Exp.get();
  ClangTool Tool(OP.getCompilations(), OP.getSourcePathList());
  int rc = Tool.run(newFrontendActionFactory<Action>().get());
  return rc ? 2 : 0;
}
