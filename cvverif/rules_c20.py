"""C20  The scripting interface is total and agrees with the engine-side view.

R1  argument discipline of the cvscript_* command functions: the nargs check dominates the body,
    argument indices are below N_MAX, optional arguments are null-tested before use
R2  colvarscript::run null-checks by-name look-ups before dispatching object-level commands, and
    command look-ups check end()
R3  script entry points that change the model go through the same module functions as the file path
R4  (shared with C08-R6) energy added by script callbacks reaches the engine
R5  (shared with C07-R5) script-driven component changes recompute the normalisation cache
R6  reported atomic gradients include the fit term under the same flag as the applied forces
R7  the component parameter reader that modifycvcs re-enters keeps unmentioned parameters (self defaults)
"""
from . import expr as X
from . import cond as C
from . import callgraph
from .facts import AnalysisBroken

GETARG = ("get_module_cmd_arg", "get_colvar_cmd_arg", "get_bias_cmd_arg")
CHECK = ("check_module_cmd_nargs", "check_colvar_cmd_nargs", "check_bias_cmd_nargs")
PASS_THROUGH = ("obj_to_str",)


def cargs(c):
    return {a: v for a, v in c.get("cargs", [])}


def r1(F, rep):
    rep.rule("C20-R1", "every script command checks its argument count first, reads only argument indices below its "
                       "declared maximum, and null-tests an optional argument (index >= N_MIN), or its image under "
                       "obj_to_str, before any other use")
    fs = sorted((f for f in F.funcs.values() if f.name.startswith("cvscript_") and f.body is not None and f.params),
                key=lambda f: f.name)
    cmds = [f for f in fs if any(X.callee_name(c) in CHECK for c in X.calls(f))]
    if len(cmds) < 80:
        raise AnalysisBroken("only %d script command functions found" % len(cmds))
    n_opt = 0
    for f in cmds:
        chk = [c for c in X.calls(f) if X.callee_name(c) in CHECK]
        ca = cargs(chk[0])
        nmin, nmax = ca.get(2), ca.get(3)
        if nmin is None or nmax is None:
            rep.add("C20-R1", "%s|nargs-const" % f.name, f.loc(), "%s: N_MIN/N_MAX are not constants" % f.name, False, func=f.q)
            continue
        gets = [c for c in X.calls(f) if X.callee_name(c) in GETARG]
        # the failing nargs check returns before anything else
        facts_ok = True
        for g in gets:
            fs2, gs = C.guard_facts(f, g)
            if not any(t[0] in ("z", "false") and "cmd_nargs" in t[1] for t in fs2) and not any(
                    t[0] == "cmp" and t[1] == "==" and "cmd_nargs" in t[2] and t[3] == "0" for t in fs2):
                facts_ok = False
        rep.add("C20-R1", "%s|nargs-first" % f.name, f.loc(),
                "%s(%d..%d args): argument count is checked before any argument is read" % (f.name, nmin, nmax)
                if facts_ok else "%s: an argument is read on a path where the count check did not succeed" % f.name,
                facts_ok, func=f.q)
        taint_nodes = {}   # node id -> description
        taint_vars = {}    # var key -> k
        for g in gets:
            k = cargs(g).get(0)
            if k is None:
                rep.add("C20-R1", "%s|index-const|%s" % (f.name, X.text(g, f)[:40]), f.loc(g),
                        "%s: argument index is not a constant" % f.name, False, func=f.q)
                continue
            ok = k < nmax
            rep.add("C20-R1", "%s|index|%d" % (f.name, k), f.loc(g),
                    "%s reads argument %d of at most %d" % (f.name, k, nmax), ok,
                    detail="reading past the declared arguments returns an unrelated object or NULL", func=f.q)
            if k >= nmin:
                taint_nodes[g["i"]] = k
        # propagate through obj_to_str and local initialisers
        changed = True
        while changed:
            changed = False
            for n in f.walk():
                if n["k"] == "CXXMemberCallExpr" and X.callee_name(n) in PASS_THROUGH and n["i"] not in taint_nodes:
                    a = X.call_args(n)
                    if a and tainted(f, a[0], taint_nodes, taint_vars) is not None:
                        taint_nodes[n["i"]] = tainted(f, a[0], taint_nodes, taint_vars)
                        changed = True
                if n["k"] == "VarDecl" and X.kids(n):
                    key = "%s#%s" % (n["n"], n["d"])
                    if key not in taint_vars and "*" in f.typestr(n.get("t")):
                        t = tainted(f, X.kids(n)[0], taint_nodes, taint_vars)
                        if t is not None:
                            taint_vars[key] = t
                            changed = True
        # uses
        for n in f.walk():
            t = None
            if n["i"] in taint_nodes:
                t = taint_nodes[n["i"]]
                key = None
            elif n["k"] == "DeclRefExpr" and X.key(n, f) in taint_vars:
                t = taint_vars[X.key(n, f)]
                key = X.key(n, f)
            if t is None:
                continue
            ctx = use_context(f, n)
            if ctx in ("init", "test", "passthrough", "compare"):
                continue
            n_opt += 1
            if key is None:
                # obj_to_str(v): null exactly when v is null
                root = None
                if n["k"] == "CXXMemberCallExpr" and X.callee_name(n) in PASS_THROUGH and X.call_args(n):
                    a0 = X.strip(X.call_args(n)[0])
                    if a0["k"] == "DeclRefExpr" and X.key(a0, f) in taint_vars:
                        root = X.key(a0, f)
                if root is not None:
                    fs2, gs = C.guard_facts(f, n)
                    ok = ("nz", root) in fs2 or ("true", root) in fs2
                    why = "obj_to_str(`%s`) used as %s is %s by a null test of `%s`" % (
                        X.re_strip(root), ctx, "dominated" if ok else "NOT dominated", X.re_strip(root))
                else:
                    ok = False
                    why = "the possibly-null result is used directly (%s)" % ctx
            else:
                fs2, gs = C.guard_facts(f, n)
                ok = ("nz", key) in fs2 or ("true", key) in fs2
                why = "use of `%s` (%s) is %s by a null test" % (X.re_strip(key), ctx, "dominated" if ok else "NOT dominated")
            rep.add("C20-R1", "%s|optional|%d|%s|%d" % (f.name, t, ctx, len([1 for o in rep.obls if o.func == f.q])), f.loc(n),
                    "%s: optional argument %d: %s" % (f.name, t, why), ok,
                    detail="a command called with its minimum number of arguments would dereference NULL", func=f.q)
    rep.count("script_commands", len(cmds))
    rep.count("optional_argument_uses", n_opt)


def tainted(f, e, taint_nodes, taint_vars):
    e = X.strip(e)
    if e["i"] in taint_nodes:
        return taint_nodes[e["i"]]
    if e["k"] == "DeclRefExpr" and X.key(e, f) in taint_vars:
        return taint_vars[X.key(e, f)]
    return None


def use_context(f, n):
    """How a possibly-null pointer value is used."""
    cur = n
    p = f.parent(n)
    while p is not None and p["k"] in ("ImplicitCastExpr", "CStyleCastExpr", "CXXStaticCastExpr", "CXXReinterpretCastExpr",
                                       "CXXConstCastExpr", "CXXFunctionalCastExpr"):
        if p["k"] == "ImplicitCastExpr" and p.get("ck") == "PointerToBoolean":
            return "test"
        cur = p
        p = f.parent(p)
    if p is None:
        return "unknown"
    k = p["k"]
    if k == "VarDecl":
        return "init"
    if k == "UnaryOperator" and p["op"] == "!":
        return "test"
    if k == "BinaryOperator" and p["op"] in ("==", "!="):
        return "compare"
    if k == "BinaryOperator" and p["op"] in ("&&", "||"):
        return "test"
    if k in ("IfStmt", "ConditionalOperator", "WhileStmt") and p.get("c") and (p["c"][0] is cur or (len(p["c"]) == 4 and p["c"][1] is cur)):
        return "test"
    if k == "CXXMemberCallExpr" and X.callee_name(p) in PASS_THROUGH:
        return "passthrough"
    if k in ("CXXConstructExpr", "CXXTemporaryObjectExpr"):
        return "construct %s" % p.get("rc", "?").split("<")[0]
    if k in ("CallExpr", "CXXMemberCallExpr", "CXXOperatorCallExpr"):
        return "argument of %s" % (p.get("cq") or "?")
    if k == "UnaryOperator" and p["op"] == "*":
        return "dereference"
    if k == "ArraySubscriptExpr":
        return "subscript"
    if k == "ReturnStmt":
        return "return"
    if k == "BinaryOperator" and p["op"] == "=":
        return "init" if X.kids(p)[1] is cur else "assigned"
    return k


def r2(F, rep):
    rep.rule("C20-R2", "colvarscript::run reaches the command dispatch with a null object only for the `help` "
                       "sub-command (every path from a failed by-name look-up to the dispatch passes the test "
                       "subcmd == \"help\"), the help commands never touch their object, and a missing command "
                       "function is not called")
    run = F.need("colvarscript::run")[0]
    res = X.const_locals(run)
    # dispatch: call through the function pointer cmd_fn
    # an indirect call through a local function pointer
    def fp_of(c):
        e = X.strip(X.kids(c)[0]) if X.kids(c) else None
        while e is not None and e["k"] == "UnaryOperator" and e.get("op") == "*":
            e = X.strip(X.kids(e)[0])
        return e if e is not None and e["k"] == "DeclRefExpr" and e.get("st") == "local" else None
    disp = [c for c in run.walk() if c["k"] == "CallExpr" and not c.get("callee") and fp_of(c) is not None]
    if not disp:
        raise AnalysisBroken("colvarscript::run: dispatch through cmd_fn not found")
    d = disp[0]
    fs2, gs = C.guard_facts(run, d, res)
    fpk = X.key(fp_of(d), run)
    ok = any(t[0] in ("nz", "true") and t[1] == fpk for t in fs2)
    rep.add("C20-R2", "run|cmd_fn-nonnull", run.loc(d), "the command function pointer is tested before the call", ok,
            detail="an unknown command name yields a null function pointer", func=run.q)
    dblk = run.cfg.block_of(d)[0]
    n = 0
    for bid, cid in run.cfg.cond_blocks():
        cn = run.nodes[cid]
        for idx, pol in ((0, True), (1, False)):
            fs3 = C.facts(run, cn, pol, res)
            if not any(t[0] == "z" and t[1].startswith("obj_for_cmd") for t in fs3):
                continue
            n += 1
            start = run.cfg.blocks[bid]["s"][idx]
            # traverse without crossing an edge that asserts subcmd == "help"
            seen, stack, leak = set(), [start], False
            while stack:
                b = stack.pop()
                if b is None or b in seen:
                    continue
                seen.add(b)
                if b == dblk:
                    leak = True
                    break
                blk = run.cfg.blocks[b]
                for i2, s2 in enumerate(blk["s"]):
                    if s2 is None:
                        continue
                    if blk.get("cond") is not None and len(blk["s"]) == 2:
                        ef = C.facts(run, run.nodes[blk["cond"]], i2 == 0, res)
                        if any(t[0] == "cmp" and t[1] == "==" and "'help'" in (t[2] + t[3]) for t in ef):
                            continue
                    stack.append(s2)
            rep.add("C20-R2", "run|null-object|%d" % n, run.loc(cn),
                    "after a failed look-up (`%s`) the dispatch is reached %s" % (
                        X.text(cn, run)[:50], "only for the help sub-command" if not leak else "for ANY sub-command"),
                    not leak, detail="an object-level command would receive a null object", func=run.q)
    if n < 2:
        raise AnalysisBroken("colvarscript::run: null tests of the looked-up object not found")
    for name, var in (("cvscript_colvar_help", "this_colvar"), ("cvscript_bias_help", "this_bias")):
        fs = [f for f in F.funcs.values() if f.name == name and f.body is not None]
        if not fs:
            raise AnalysisBroken("%s not found" % name)
        f = fs[0]
        uses = [x for x in f.walk() if x["k"] == "DeclRefExpr" and x.get("n") == var
                and use_context(f, x) not in ("test", "compare")]
        rep.add("C20-R2", "%s|no-object-use" % name, f.loc(), "%s never uses its (possibly null) object" % name, not uses, func=f.q)


def r3(F, rep):
    rep.rule("C20-R3", "script commands that change the model use the module's own entry points: configuration goes "
                       "through colvarmodule::read_config_* (hence parse_config and its keyword check), state through "
                       "setup_input/read_state/write_restart_*; no command calls an object's init() directly except "
                       "modifycvcs, whose target checks the keywords")
    cg = callgraph.get(F)
    expect = {
        "cvscript_cv_config": "colvarmodule::parse_config",
        "cvscript_cv_configfile": "colvarmodule::parse_config",
        "cvscript_cv_load": "colvarmodule::setup_input",
        "cvscript_cv_loadfromstring": "colvarmodule::setup_input",
        "cvscript_cv_save": "colvarmodule::write_restart_file",
        "cvscript_cv_savetostring": "colvarmodule::write_state",
        "cvscript_cv_reset": "colvarmodule::reset",
    }
    for name, target in expect.items():
        fs = [f for f in F.funcs.values() if f.name == name and f.body is not None]
        if not fs:
            raise AnalysisBroken("script command %s not found" % name)
        ok = cg.reaches(fs[0].m, lambda m, g: g is not None and g.q == target)
        rep.add("C20-R3", "%s|%s" % (name, target), fs[0].loc(), "%s %s %s" % (name, "reaches" if ok else "does NOT reach", target),
                ok, func=fs[0].q)
    # direct init() calls from commands
    for f in F.funcs.values():
        if not f.name.startswith("cvscript_") or f.body is None:
            continue
        for c in X.calls(f):
            if c["k"] == "CXXMemberCallExpr" and X.callee_name(c) == "init" and c.get("cq", "").split("::")[0] in (
                    "colvar", "colvarbias"):
                rep.add("C20-R3", "%s|direct-init" % f.name, f.loc(c), "%s calls %s directly, bypassing the keyword check" % (
                    f.name, c.get("cq")), False, func=f.q)
    up = F.need("colvar::update_cvc_config")[0]
    ok = any(X.callee_name(c) == "check_keywords" for c in X.calls(up))
    rep.add("C20-R3", "modifycvcs|check_keywords", up.loc(), "colvar::update_cvc_config checks the keywords of the new component configuration", ok, func=up.q)


def self_default(F, rep, rid, only=None):
    """Shared with C18-R6 (period / wrapAround)."""
    rep.rule(rid, "re-entrant parameter readers: colvar::cvc::init() is run again by `modifycvcs` with a partial text, and "
                  "colvarmodule::parse_global_params() runs on every configuration chunk; every get_keyval() in them that fills "
                  "persistent storage (a data member or a static, not a local) uses that same storage as its default value, so "
                  "that parameters the new text does not mention keep their current values")
    n = 0
    for q in ("colvar::cvc::init", "colvarmodule::parse_global_params"):
        f = F.one(q)
        m = 0
        for c in X.calls(f):
            if X.callee_name(c) != "get_keyval":
                continue
            a = X.call_args(c)
            if len(a) < 4:
                continue
            t = X.strip(a[2])
            persistent = (t["k"] == "MemberExpr" and X.key(t, f).startswith("this.")) or \
                         (t["k"] == "DeclRefExpr" and t.get("st") not in ("local", "param"))
            if not persistent:
                continue
            if only is not None and t.get("n") not in only:
                continue
            m += 1
            ok = X.key(a[3], f) == X.key(a[2], f)
            rep.add(rid, "%s|%s" % (q.split("::", 1)[-1], X.key(a[1], f)), f.loc(c), "%s: keyword %s fills `%s`; its default is %s" % (
                q, X.key(a[1], f), t.get("n"), "the same storage" if ok else "`%s`" % X.text(a[3], f)[:40]), ok,
                detail="a later configuration text that does not repeat this keyword resets the parameter", func=f.q)
        n += m
        if only is None and m < 6:
            raise AnalysisBroken("%s: only %d keywords filling persistent storage found in %s" % (rid, m, q))
    if n < 2:
        raise AnalysisBroken("%s: only %d keywords found" % (rid, n))


def r9(F, rep):
    rep.rule("C20-R9", "what a script query returns about the module is reset with the objects it describes: every data member of "
                       "colvarmodule that a script command reads is cleared or assigned in colvarmodule::reset() (or in a "
                       "member function it calls) -- after `cv reset` no query reports objects or energies of the previous "
                       "configuration")
    from .rules_c10 import lvalue_writes
    fields = {}
    for f in F.funcs.values():
        if not (f.name or "").startswith("cvscript_"):
            continue
        for m in f.walk():
            if m["k"] == "MemberExpr" and (m.get("q") or "").startswith("colvarmodule::") and m.get("dk") == "Field":
                fields.setdefault(m["q"], f.name)
    if len(fields) < 3:
        raise AnalysisBroken("C20-R9: only %d module members read by script commands found" % len(fields))
    r = F.one("colvarmodule::reset")
    todo, seen = [r], set()
    touched = set()
    while todo:
        g = todo.pop()
        if g.m in seen:
            continue
        seen.add(g.m)
        for w, t in lvalue_writes(g):
            ts = X.strip(t)
            while ts["k"] != "MemberExpr" and X.kids(ts):
                ts = X.strip(X.kids(ts)[0])
            if ts["k"] == "MemberExpr" and ts.get("q"):
                touched.add(ts["q"])
        for c in X.calls(g):
            if c["k"] == "CXXMemberCallExpr" and X.callee_name(c) in ("clear", "resize", "assign") and X.receiver(c) is not None:
                rr = X.strip(X.receiver(c))
                if rr["k"] == "MemberExpr" and rr.get("q"):
                    touched.add(rr["q"])
            h = F.funcs.get(c.get("callee"))
            if h is not None and h.cls == "colvarmodule" and len(seen) < 12:
                todo.append(h)
    for q in sorted(fields):
        ok = q in touched
        rep.add("C20-R9", "reset|%s" % q, r.loc(), "`%s` (read by %s) is %s by colvarmodule::reset()" % (q.split("::")[-1], fields[q], "re-initialised" if ok else "NOT touched"), ok,
                detail="after `cv reset` the script still reports the value left by the deleted objects", func=r.q)


def r10(F, rep):
    rep.rule("C20-R10", "the bound is tested before the element is touched: in every `&&` chain that contains both a subscript "
                        "V[i] and the test `i < V.size()` on the same container and index, the test is the earlier operand "
                        "(`while ((is >> v[i]) && (i < v.size()))` extracts into v[size] before it notices): script arguments "
                        "with more values than the variable has components must be refused, not written past the end")
    import re as _re

    def walk(n):
        yield n
        for c in X.kids(n):
            if c is not None:
                yield from walk(c)

    def conj(n, out):
        n = X.strip(n)
        if n["k"] == "BinaryOperator" and n.get("op") == "&&":
            a, b = X.kids(n)
            conj(a, out)
            conj(b, out)
        else:
            out.append(n)

    def nk(k):
        return _re.sub(r"^\(?\*?\s*this\)?$|^op\*\(this\)$", "this", k.strip())
    n = 0
    seen = set()
    for f in F.funcs.values():
        if "/src/" not in f.file or f.body is None:
            continue
        for e in f.walk():
            if e["k"] != "BinaryOperator" or e.get("op") != "&&":
                continue
            par = f.parent(e)
            while par is not None and par["k"] in ("ParenExpr", "ImplicitCastExpr"):
                par = f.parent(par)
            if par is not None and par["k"] == "BinaryOperator" and par.get("op") == "&&":
                continue
            ops = []
            conj(e, ops)
            for bi, b in enumerate(ops):
                if b["k"] != "BinaryOperator" or b.get("op") not in ("<", ">"):
                    continue
                l, r = [X.strip(k) for k in X.kids(b)]
                idx, sz = (l, r) if b["op"] == "<" else (r, l)
                if idx["k"] != "DeclRefExpr" or sz["k"] != "CXXMemberCallExpr" or X.callee_name(sz) not in ("size", "length"):
                    continue
                rc = X.receiver(sz)
                vk = nk(X.key(rc, f)) if rc is not None else "this"
                ik = X.key(idx, f)
                for ai, a in enumerate(ops):
                    if ai == bi:
                        continue
                    if not [u for u in walk(a) if u["k"] == "CXXOperatorCallExpr" and u.get("op") == "[]" and
                            nk(X.key(X.call_args(u)[0], f)) == vk and X.key(X.call_args(u)[1], f) == ik]:
                        continue
                    key = (f.q.split("<")[0], X.re_strip(vk), X.re_strip(ik))
                    if key in seen:
                        continue
                    seen.add(key)
                    n += 1
                    rep.add("C20-R10", "%s|%s[%s]" % key, f.loc(e), "%s: `%s[%s]` and the test `%s < %s.size()` are operands of one `&&`; the test comes %s" % (
                        f.q, key[1], key[2], key[2], key[1], "first" if bi < ai else "AFTER the subscript"), bi < ai,
                        detail="one element past the end is written before the loop stops", func=f.q)
    if n < 1:
        raise AnalysisBroken("C20-R10: no `&&` chain with a subscript and its bound test found (vector1d::from_simple_string expected)")


def r11(F, rep, rid="C20-R11"):
    rep.rule(rid, "index 0 is an index: where an integer local that starts as a negative sentinel (\"not found\") is filled by a "
                  "search and then used as a subscript under a comparison with a constant, the comparison holds for 0 (>= 0, "
                  "> -1, != -1) -- `> 0` reports \"none\" whenever the answer is the first element")
    n = 0
    for f in sorted(F.funcs.values(), key=lambda g: g.q):
        if "/src/" not in f.file or f.body is None or not f.cfg.ok:
            continue
        sent = {}
        for d in f.walk():
            if d["k"] == "VarDecl" and d.get("st") == "local" and X.kids(d):
                v = C._lit(X.kids(d)[0])
                if v is not None and v < 0 and X.is_int_type(f.typestr(d.get("t"))):
                    sent[d["d"]] = d
        if not sent:
            continue
        seen = set()
        for x in f.walk():
            sub = None
            if x["k"] == "ArraySubscriptExpr" and len(X.kids(x)) == 2:
                sub = X.kids(x)[1]
            elif x["k"] == "CXXOperatorCallExpr" and x.get("op") == "[]" and len(X.call_args(x)) == 2:
                sub = X.call_args(x)[1]
            if sub is None:
                continue
            ss = X.strip(sub)
            if ss["k"] != "DeclRefExpr" or ss.get("d") not in sent or ss["d"] in seen:
                continue
            facts, gs = C.guard_facts(f, x)
            kv = X.key(ss, f)
            rel = [t for t in facts if t[0] == "cmp" and t[2] == kv and C_num(t[3]) is not None]
            if not rel:
                continue
            seen.add(ss["d"])
            n += 1
            ok = all({"<": 0 < C_num(t[3]), "<=": 0 <= C_num(t[3]), ">": 0 > C_num(t[3]), ">=": 0 >= C_num(t[3]),
                      "==": 0 == C_num(t[3]), "!=": 0 != C_num(t[3])}.get(t[1], True) for t in rel)
            rep.add(rid, "%s|%s" % (f.q, ss.get("n")), f.loc(x), "%s: `%s` (starts at %s) is used as a subscript under %s" % (
                f.q, ss.get("n"), C._lit(X.kids(sent[ss["d"]])[0]), ["%s %s %s" % (ss.get("n"), t[1], t[3]) for t in rel]), ok,
                detail="a result found in the first slot is treated as not found: the value reported for it is the sentinel", func=f.q)
    if n < 1:
        raise AnalysisBroken("%s: no sentinel-initialised index used as a subscript under a comparison found" % rid)


def C_num(s):
    try:
        return float(s)
    except (TypeError, ValueError):
        return None


def run(F, rep, tier):
    r11(F, rep)
    r1(F, rep)
    r2(F, rep)
    r3(F, rep)
    from . import rules_c08
    rules_c08.r6(F, rep)
    rep.rules["C20-R4"] = rep.rules.pop("C08-R6")
    for o in rep.obls:
        if o.rule == "C08-R6":
            o.rule = "C20-R4"
            o.key = o.key.replace("C08-R6|", "C20-R4|", 1)
    # script-driven reconfiguration of components (modifycvcs, cvcflags) must leave the same derived state as the
    # configuration-file path
    from . import rules_c07
    rules_c07.norm_cache(F, rep, "C20-R5")
    # the atomic gradients handed to scripts are assembled from the same pieces, under the same flags, as the forces
    from . import rules_c01
    rep.rule("C20-R6", "atomic gradients returned by `getgradients` include the fit term exactly when the forces do: "
                       "cvc::collect_gradients() reads fit_gradients under f_ag_fit_gradients and under no other feature "
                       "(a group fitted on itself carries the term too; f_ag_fitting_group only selects which group)")
    r9(F, rep)
    r10(F, rep)
    self_default(F, rep, "C20-R7")
    from .rules_c13 import unique_rank
    unique_rank(F, rep, "C20-R8")
    rules_c01.fit_consumers(F, rep, "C20-R6", (
        ("colvar::cvc::collect_gradients", lambda f: [x for x in f.walk() if x["k"] == "MemberExpr" and x.get("n") == "fit_gradients"]),))
