"""C02  Variable values equal their mathematical definition and respect its symmetries.

R1  minimum-image branch agreement: wherever a component forms a displacement under the f_cvc_pbc_minimum_image
    switch, the plain branch (B - A) and the periodic branch (position_distance(A, B)) denote the same displacement
R2  duplicate atoms cannot enter a group: every insertion into atom_group::atoms / atoms_ids is preceded by a
    complete membership search that returns early on a match
R3  positions are read before use: in calc_cvc_values() read_data() precedes calc_value() for each component, and
    cvc::read_data() reaches read_positions/calc_required_properties for every registered group
"""
from . import expr as X
from . import cond as C
from . import callgraph
from .facts import AnalysisBroken
from .rules_c10 import lvalue_writes, member_root


# ---- algebraic normal form of vector expressions (sums of signed terms)
def nf(f, e, res, sign=1):
    """List of (sign, key) terms; position_distance(P, Q) is expanded to Q - P."""
    e = X.strip(e)
    k = e["k"]
    if k in ("CXXConstructExpr", "CXXTemporaryObjectExpr", "CXXFunctionalCastExpr"):
        real_args = [a for a in X.call_args(e) if a["k"] != "CXXDefaultArgExpr"]
        if len(real_args) == 1:
            return nf(f, real_args[0], res, sign)
    if k == "DeclRefExpr" and res and e.get("d") in res:
        return nf(f, res[e["d"]], res, sign)
    if k == "CallExpr" and e.get("cq") in ("colvarmodule::position_distance",):
        a = X.call_args(e)
        return nf(f, a[1], res, sign) + nf(f, a[0], res, -sign)
    op = None
    args = None
    if k == "BinaryOperator" and e["op"] in ("+", "-", "*"):
        op, args = e["op"], X.kids(e)
    elif k == "CXXOperatorCallExpr" and e.get("op") in ("+", "-", "*") and len(X.call_args(e)) == 2:
        op, args = e["op"], X.call_args(e)
    elif k == "UnaryOperator" and e["op"] == "-":
        return nf(f, X.kids(e)[0], res, -sign)
    elif k == "CXXOperatorCallExpr" and e.get("op") == "-" and len(X.call_args(e)) == 1:
        return nf(f, X.call_args(e)[0], res, -sign)
    if op == "+":
        return nf(f, args[0], res, sign) + nf(f, args[1], res, sign)
    if op == "-":
        return nf(f, args[0], res, sign) + nf(f, args[1], res, -sign)
    if op == "*":
        facs = []
        s = sign
        for a in args:
            v = C._lit(a)
            if v is not None and v in (1, 1.0):
                continue
            if v is not None and v in (-1, -1.0):
                s = -s
                continue
            t = nf(f, a, res, 1)
            if len(t) == 1:
                s *= t[0][0]
                facs.append(t[0][1])
            else:
                facs.append("(" + render(t) + ")")
        if not facs:
            return [(s, "1")]
        return [(s, " * ".join(sorted(facs)))]
    # recurse into calls / member calls / divisions so that a displacement nested in `.norm()`,
    # integer_power(...) or a quotient is normalised as well
    if k == "CXXMemberCallExpr":
        r = X.receiver(e)
        rs = "(" + render(nf(f, r, res)) + ")" if r is not None and X.strip(r)["k"] != "CXXThisExpr" else "this"
        return [(sign, "%s.%s(%s)" % (rs, X.callee_name(e), ", ".join(render(nf(f, a, res)) for a in X.call_args(e))))]
    if k == "CallExpr":
        return [(sign, "%s(%s)" % (e.get("cq") or "?", ", ".join(render(nf(f, a, res)) for a in X.call_args(e))))]
    if (k == "BinaryOperator" and e["op"] == "/") or (k == "CXXOperatorCallExpr" and e.get("op") == "/" and len(X.call_args(e)) == 2):
        a, b = (X.kids(e) if k == "BinaryOperator" else X.call_args(e))
        return [(sign, "(%s) / (%s)" % (render(nf(f, a, res)), render(nf(f, b, res))))]
    if k == "MemberExpr" and X.kids(e) and X.strip(X.kids(e)[0])["k"] != "CXXThisExpr":
        return [(sign, "(%s).%s" % (render(nf(f, X.kids(e)[0], res)), e["n"]))]
    return [(sign, X.re_strip(X.key(e, f, res)))]


def render(terms):
    pos = sorted(k for s, k in terms if s > 0)
    neg = sorted(k for s, k in terms if s < 0)
    # cancel
    for k in list(pos):
        if k in neg:
            pos.remove(k)
            neg.remove(k)
    return " + ".join(pos) + ((" - " + " - ".join(neg)) if neg else "")


def mentions_pbc(f, n):
    return X.mentions(n, lambda x: x["k"] == "DeclRefExpr" and x.get("n") == "f_cvc_pbc_minimum_image")


def effects(f, branch, res):
    """{target key: normal form} for assignments and set_weighted_gradient calls in a branch."""
    out = {}
    if branch is None:
        return out
    for n in f.walk(branch):
        tgt, rhs = None, None
        if n["k"] == "BinaryOperator" and n["op"] == "=":
            tgt, rhs = X.kids(n)
        elif n["k"] == "CXXOperatorCallExpr" and n.get("op") == "=" and len(X.call_args(n)) == 2:
            tgt, rhs = X.call_args(n)
        elif n["k"] == "CXXMemberCallExpr" and X.callee_name(n) == "set_weighted_gradient":
            r = X.receiver(n)
            tgt, rhs = r, X.call_args(n)[0]
            out["grad:" + X.re_strip(X.key(tgt, f, res))] = render(nf(f, rhs, res))
            continue
        elif n["k"] == "VarDecl" and X.kids(n):
            out["local:" + n["n"]] = render(nf(f, X.kids(n)[0], res))
            continue
        if tgt is not None:
            out[X.re_strip(X.key(tgt, f, res))] = render(nf(f, rhs, res))
    return out


def r1(F, rep):
    rep.rule("C02-R1", "minimum-image branch agreement: in every component, the branch taken without "
                       "f_cvc_pbc_minimum_image (plain subtraction) and the branch taken with it (position_distance(a, b), "
                       "documented as b - a) assign the same displacement expression to the same targets, once "
                       "position_distance(a, b) is rewritten as b - a")
    n = 0
    for f in F.funcs.values():
        if "/src/colvarcomp" not in f.file or not f.cfg.ok:
            continue
        res = X.const_locals(f)
        for node in f.walk():
            plain, pbc = None, None
            if node["k"] == "IfStmt":
                cs = node["c"]
                if len(cs) == 4:
                    cs = cs[1:]
                cond, then, els = cs[0], cs[1], cs[2] if len(cs) > 2 else None
                if cond is None or not mentions_pbc(f, cond):
                    continue
                neg = X.strip(cond)["k"] == "UnaryOperator" and X.strip(cond)["op"] == "!"
                if els is None:
                    # `if (pbc) { return A; } return B;` : the statement after the if is the other branch
                    rets = [x for x in f.walk(then) if x["k"] == "ReturnStmt" and X.kids(x)]
                    par = f.parent(node)
                    nxt = None
                    if par is not None and par["k"] == "CompoundStmt":
                        sibs = [c for c in par["c"] if c is not None]
                        i = [k for k, c in enumerate(sibs) if c is node]
                        if i and i[0] + 1 < len(sibs) and sibs[i[0] + 1]["k"] == "ReturnStmt" and X.kids(sibs[i[0] + 1]):
                            nxt = sibs[i[0] + 1]
                    if len(rets) != 1 or nxt is None:
                        continue
                    a_then, a_next = X.kids(rets[0])[0], X.kids(nxt)[0]
                    plain, pbc = (a_then, a_next) if neg else (a_next, a_then)
                    ep = {"return": render(nf(f, plain, res))}
                    eb = {"return": render(nf(f, pbc, res))}
                else:
                    # polarity: `!is_enabled(pbc)` -> then-branch is the plain one
                    plain, pbc = (then, els) if neg else (els, then)
                    ep, eb = effects(f, plain, res), effects(f, pbc, res)
            elif node["k"] == "ConditionalOperator":
                cond, a, b = node["c"]
                if not mentions_pbc(f, cond):
                    continue
                neg = X.strip(cond)["k"] == "UnaryOperator" and X.strip(cond)["op"] == "!"
                plain, pbc = (a, b) if neg else (b, a)
                ep = {"value": render(nf(f, plain, res))}
                eb = {"value": render(nf(f, pbc, res))}
            else:
                continue
            if not X.mentions(pbc, lambda x: x["k"] == "CallExpr" and x.get("cq") == "colvarmodule::position_distance"):
                continue
            for tgt in sorted(set(ep) | set(eb)):
                n += 1
                a, b = ep.get(tgt), eb.get(tgt)
                if tgt.startswith("local:") and (a is None or b is None):
                    # a helper local of one branch only: it is looked through where it is used
                    n -= 1
                    continue
                ok = a is not None and b is not None and a == b
                rep.add("C02-R1", "%s|%s|%d" % (f.q, tgt, node.get("l", 0) - f.line), f.loc(node),
                        "%s, target `%s`: plain `%s` ; minimum-image `%s`" % (f.q, tgt, a, b), ok,
                        detail="the two branches differ only in a periodic cell, which the non-periodic test trajectory cannot show",
                        func=f.q)
    if n < 15:
        raise AnalysisBroken("only %d minimum-image branch pairs found" % n)
    rep.count("minimum_image_pairs", n)


def r2(F, rep):
    rep.rule("C02-R2", "duplicate atoms cannot enter a group: every push_back onto atom_group::atoms / atoms_ids in "
                       "add_atom() and add_atom_id() is preceded by a search over the whole id list (loop from 0 to "
                       "atoms_ids.size() with no extra exit condition) that returns on a match; all other writers copy or "
                       "rebuild an already deduplicated list")
    n = 0
    for q in ("colvarmodule::atom_group::add_atom", "colvarmodule::atom_group::add_atom_id"):
        for f in F.func_q(q):
            res = X.const_locals(f)
            pushes = [c for c in X.calls(f) if c["k"] == "CXXMemberCallExpr" and X.callee_name(c) == "push_back"
                      and X.receiver(c) is not None and X.key(X.receiver(c), f) in ("this.atoms", "this.atoms_ids")]
            loops = []
            for l in f.walk():
                if l["k"] == "ForStmt" and l["c"][1] is not None and l["c"][3] is not None:
                    cond = X.strip(l["c"][1])
                    full = cond["k"] == "BinaryOperator" and cond["op"] == "<" and \
                        X.re_strip(X.key(X.kids(cond)[1], f, res)) == "this.atoms_ids.size()" and \
                        X.strip(X.kids(cond)[0])["k"] == "DeclRefExpr"
                    start = None
                    if l["c"][0] is not None:
                        for x in f.walk(l["c"][0]):
                            if x["k"] == "BinaryOperator" and x["op"] == "=":
                                start = C._lit(X.kids(x)[1])
                            elif x["k"] == "VarDecl" and X.kids(x):
                                start = C._lit(X.kids(x)[0])
                    rets = [r for r in f.walk(l["c"][3]) if r["k"] == "ReturnStmt"]
                    eq = [x for x in f.walk(l["c"][3]) if x["k"] == "BinaryOperator" and x["op"] == "=="
                          and "atoms_ids" in X.key(x, f, res)]
                    if rets and eq:
                        loops.append((l, full and start == 0))
            # std::find over the whole list is an equivalent complete search
            finds = [c for c in X.calls(f) if c.get("cq") == "std::find" and len(X.call_args(c)) == 3 and
                     "atoms_ids.begin()" in X.key(X.call_args(c)[0], f, res) and "atoms_ids.end()" in X.key(X.call_args(c)[1], f, res)]
            for fc in finds:
                loops.append(({"c": [None, fc, None, None]}, True))
            for p in pushes:
                n += 1
                ok = any(full and f.cfg.dominates(l["c"][1], p) for l, full in loops)
                rep.add("C02-R2", "%s|%s" % (q, X.re_strip(X.key(X.receiver(p), f))), f.loc(p),
                        "%s: push_back onto %s is %s by an unconditional search over all of atoms_ids" % (
                            q, X.re_strip(X.key(X.receiver(p), f)), "preceded" if ok else "NOT preceded"), ok,
                        detail="an atom listed twice would be counted twice in centres, masses and gyration", func=q)
    if n < 2:
        raise AnalysisBroken("atom_group::add_atom / add_atom_id insertion sites not found")
    # other writers
    allowed = {}
    others = set()
    for f in F.funcs.values():
        if f.cls != "colvarmodule::atom_group":
            continue
        for c in X.calls(f):
            if c["k"] == "CXXMemberCallExpr" and X.callee_name(c) in ("push_back", "insert", "emplace_back") and \
                    X.receiver(c) is not None and X.key(X.receiver(c), f) in ("this.atoms", "this.atoms_ids"):
                if f.q not in ("colvarmodule::atom_group::add_atom", "colvarmodule::atom_group::add_atom_id"):
                    # rebuilding the id list from the (already deduplicated) atoms is fine
                    rebuild = X.key(X.receiver(c), f) == "this.atoms_ids" and any(
                        l["k"] == "ForStmt" and l["c"][1] is not None and "this.atoms" in X.key(l["c"][1], f)
                        and "atoms_ids" not in X.key(l["c"][1], f) for l in f.ancestors(c))
                    if not rebuild:
                        others.add(f.q)
    rep.add("C02-R2", "other-inserters", "", "no other member function of atom_group inserts single atoms (%s)" % sorted(others),
            not others, func="colvarmodule::atom_group")


def r3(F, rep):
    rep.rule("C02-R3", "positions are read before they are used: colvar::calc_cvc_values() calls read_data() before "
                       "calc_value() on each component, and cvc::read_data() reads the positions and recomputes the "
                       "required properties of every registered atom group")
    f = F.one("colvar::calc_cvc_values")
    rd = [c for c in X.calls(f) if X.callee_name(c) == "read_data"]
    cv = [c for c in X.calls(f) if X.callee_name(c) == "calc_value"]
    ok = bool(rd) and bool(cv) and all(any(f.cfg.dominates(r, c) and X.key(X.receiver(r), f) == X.key(X.receiver(c), f) for r in rd) for c in cv)
    rep.add("C02-R3", "calc_cvc_values|order", f.loc(), "read_data() dominates calc_value() on the same component", ok, func=f.q)
    g = F.one("colvar::cvc::read_data")
    names = [X.callee_name(c) for c in X.calls(g)]
    ok2 = "read_positions" in names and "calc_required_properties" in names
    loop = any(l["k"] == "ForStmt" and "atom_groups" in X.key(l["c"][1], g) for l in g.walk() if l["k"] == "ForStmt" and l["c"][1] is not None)
    rep.add("C02-R3", "cvc::read_data|groups", g.loc(), "cvc::read_data() loops over atom_groups and calls read_positions + calc_required_properties",
            ok2 and loop, func=g.q)
    # every group obtained by parse_group is registered
    pg = F.one("colvar::cvc::parse_group")
    reg = [c for c in X.calls(pg) if X.callee_name(c) == "register_atom_group"]
    rep.add("C02-R3", "parse_group|registers", pg.loc(), "parse_group() registers the group it returns", bool(reg), func=pg.q)


def r4(F, rep):
    rep.rule("C02-R4", "fitted frames: calc_required_properties() computes the centre of geometry before the roto-translation "
                       "that uses it and recomputes centre of geometry and of mass after it (the cached centres refer to the "
                       "frame the components see); in calc_apply_roto_translation() every translation applied to the group is "
                       "also applied, with the same vector, to its fitting group, both are rotated by the same matrix, and the "
                       "unrotated copy used by the fit gradients is taken after centring and before rotating")
    f = F.one("colvarmodule::atom_group::calc_required_properties")
    roto = [c for c in X.calls(f) if X.callee_name(c) == "calc_apply_roto_translation"]
    if not roto:
        rep.add("C02-R4", "roto|present", f.loc(), "calc_required_properties() never applies the roto-translation", False, func=f.q)
        return
    roto = roto[0]
    own = lambda c: c["k"] == "CXXMemberCallExpr" and (X.receiver(c) is None or X.strip(X.receiver(c))["k"] == "CXXThisExpr")
    for nm in ("calc_center_of_geometry", "calc_center_of_mass"):
        cs = [c for c in X.calls(f) if X.callee_name(c) == nm and own(c)]
        before = [c for c in cs if f.cfg.dominates(c, roto)]
        after = [c for c in cs if f.cfg.can_reach(roto, c) and not f.cfg.can_reach(c, roto) and
                 set(f.cfg.real_guards(c)) == set(f.cfg.real_guards(roto))]
        if nm == "calc_center_of_geometry":
            rep.add("C02-R4", "order|%s|before" % nm, f.loc(roto), "%s() runs before the roto-translation (%d call)" % (nm, len(before)), bool(before),
                    detail="the group would be centred with the centre of the previous step", func=f.q)
        rep.add("C02-R4", "order|%s|after" % nm, f.loc(roto), "%s() is recomputed after the roto-translation under the same flags (%d call)" % (nm, len(after)),
                bool(after), detail="components would read a centre that refers to the laboratory frame", func=f.q)
    g = F.one("colvarmodule::atom_group::calc_apply_roto_translation")
    tr = [c for c in X.calls(g) if X.callee_name(c) == "apply_translation"]
    mine = [c for c in tr if own(c)]
    fits = [c for c in tr if not own(c) and "fitting_group" in X.key(X.receiver(c), g)]
    for c in mine:
        arg = X.key(X.call_args(c)[0], g)
        peer = [d for d in fits if X.key(X.call_args(d)[0], g) == arg and g.cfg.can_reach(c, d) and
                set(g.cfg.real_guards(c)) <= set(g.cfg.real_guards(d))]
        ok = False
        for d in peer:
            extra = set(g.cfg.real_guards(d)) - set(g.cfg.real_guards(c))
            if all("fitting_group" in X.key(g.nodes[cid], g) and pol for cid, pol in extra):
                ok = True
        rep.add("C02-R4", "translate|%s" % X.re_strip(arg)[:40], g.loc(c), "apply_translation(%s) on the group is mirrored on the fitting group (under `if (fitting_group)` only)" % X.text(X.call_args(c)[0], g)[:40],
                ok, detail="the fitting group would stay in the laboratory frame: the optimal rotation is computed from misplaced atoms", func=g.q)
    if len(mine) < 2:
        raise AnalysisBroken("calc_apply_roto_translation: translations not found")
    # rotation applied to both with the same matrix
    rotw = []
    from .rules_c10 import lvalue_writes as LW
    for w, t in LW(g):
        tt = X.strip(t)
        if tt["k"] == "MemberExpr" and tt.get("q") == "colvarmodule::atom::pos" and w.get("op") == "=":
            r = X.kids(w)[1] if w["k"] == "BinaryOperator" else X.call_args(w)[1]
            k = X.re_strip(X.key(r, g))
            if "rot" in k:
                loop = [a for a in g.ancestors(w) if a["k"] == "ForStmt"]
                over = X.re_strip(X.key(loop[0]["c"][1], g)) if loop and loop[0]["c"][1] is not None else ""
                rotw.append((w, k.split(",")[0], "fitting_group" in over))
    mats = {m for _, m, _ in rotw}
    rep.add("C02-R4", "rotate|both", g.loc(rotw[0][0]) if rotw else g.loc(), "positions rotated in %d loop(s), over the group and over the fitting group, with one matrix: %s" % (
        len(rotw), sorted(mats)), len(rotw) == 2 and len(mats) == 1 and {x for _, _, x in rotw} == {True, False}, func=g.q)
    # pos_unrotated saved after centring and before rotating
    save = [w for w, t in LW(g) if "pos_unrotated" in X.key(t, g) and w.get("op") == "="]
    cen = [c for c in mine if any("f_ag_center" in X.key(g.nodes[cid], g) and "origin" not in X.key(g.nodes[cid], g) for cid, _ in g.cfg.real_guards(c))]
    ok = bool(save) and bool(rotw) and bool(cen) and all(g.cfg.can_reach(cen[0], s) and not g.cfg.can_reach(s, cen[0]) for s in save) and \
        all(g.cfg.can_reach(s, rotw[0][0]) and not g.cfg.can_reach(rotw[0][0], s) for s in save)
    rep.add("C02-R4", "unrotated-copy", g.loc(save[0]) if save else g.loc(), "pos_unrotated is copied after centring and before rotating", ok,
            detail="fit gradients would be evaluated in the wrong frame", func=g.q)


def r5(F, rep):
    rep.rule("C02-R5", "reference coordinates read from a file reach the atoms they belong to: create_sorted_ids() defines "
                       "sorted_atoms_ids_map[k] as the position, in the group's own order, of the k-th atom in sorted order; "
                       "load_coords() therefore subscripts its output (group order) with map[i] and the buffer filled by the "
                       "file readers (sorted order) with i -- not the other way round")
    d = F.one("colvarmodule::atom_group::create_sorted_ids")
    res = X.const_locals(d)
    defs = [(w, t) for w, t in lvalue_writes(d) if "sorted_atoms_ids_map" in X.key(t, d) and w.get("op") == "=" and
            X.strip(t)["k"] in ("CXXOperatorCallExpr", "ArraySubscriptExpr")]
    ok = False
    for w, t in defs:
        rhs = X.kids(w)[1] if w["k"] == "BinaryOperator" else X.call_args(w)[1]
        k = X.re_strip(X.key(rhs, d, res))
        # value = std::find(atoms_ids.begin(), atoms_ids.end(), <sorted element>) - atoms_ids.begin()
        ok = "find" in k and "this.atoms_ids.begin()" in k
        sub = X.call_args(X.strip(t))[1] if X.strip(t)["k"] == "CXXOperatorCallExpr" else X.kids(X.strip(t))[1]
        subk = X.key(sub, d)
        same = any("sorted_atoms_ids" in X.key(t2, d) and "map" not in X.key(t2, d) and
                   X.key((X.call_args(X.strip(t2))[1] if X.strip(t2)["k"] == "CXXOperatorCallExpr" else X.kids(X.strip(t2))[1]), d) == subk
                   for w2, t2 in lvalue_writes(d) if X.strip(t2)["k"] in ("CXXOperatorCallExpr", "ArraySubscriptExpr"))
        rep.add("C02-R5", "map|definition", d.loc(w), "sorted_atoms_ids_map[k] = position of the k-th sorted id within atoms_ids (value from find in atoms_ids: %s; k also subscripts sorted_atoms_ids: %s)" % (ok, same),
                ok and same, func=d.q)
    if not defs:
        raise AnalysisBroken("create_sorted_ids: definition of sorted_atoms_ids_map not found")
    fs = [f for f in F.func_q("colvarmodule::load_coords") if any(X.callee_name(c) == "sorted_ids_map" for c in X.calls(f))]
    if not fs:
        raise AnalysisBroken("colvarmodule::load_coords (user of sorted_ids_map) not found")
    f = fs[0]
    maps = {v["d"] for v in f.walk() if v["k"] == "VarDecl" and X.kids(v) and X.mentions(X.kids(v)[0], lambda y: X.callee_name(y) == "sorted_ids_map")}
    # the buffer handed to the file readers
    bufs = set()
    for c in X.calls(f):
        if X.callee_name(c) in ("load_coords_xyz", "load_coords_pdb"):
            for a in X.call_args(c):
                for y in f.walk(a):
                    if y["k"] == "DeclRefExpr" and y.get("st") == "local" and "vector" in f.type(y):
                        bufs.add(y["d"])
    params = {p["d"] for p in f.params}
    n = 0
    for w, t in lvalue_writes(f):
        if w.get("op") != "=" or not X.mentions(w, lambda y: y["k"] == "DeclRefExpr" and y.get("d") in maps):
            continue
        n += 1
        lhs, rhs = (X.kids(w) if w["k"] == "BinaryOperator" else X.call_args(w))[:2]

        def role(e):
            through_map = X.mentions(e, lambda y: y["k"] == "DeclRefExpr" and y.get("d") in maps)
            base = "output" if X.mentions(e, lambda y: y["k"] == "DeclRefExpr" and y.get("d") in params) else (
                "buffer" if X.mentions(e, lambda y: y["k"] == "DeclRefExpr" and y.get("d") in bufs) else "?")
            return base, through_map
        rl, rr = role(lhs), role(rhs)
        ok = (rl == ("output", True) and rr == ("buffer", False))
        rep.add("C02-R5", "map|use", f.loc(w), "load_coords(): %s[%s] = %s[%s]" % (rl[0], "map[i]" if rl[1] else "i", rr[0], "map[i]" if rr[1] else "i"), ok,
                detail="with the inverse permutation every group whose atoms are not listed in ascending order gets another atom's reference position", func=f.q)
    if n < 1:
        raise AnalysisBroken("load_coords: copy through sorted_ids_map not found")


def r6(F, rep, rid="C02-R6"):
    rep.rule(rid, "a line cursor counts the lines that were consumed: where a reader skips to a wanted line with "
                  "`while (cursor < wanted) { getline(...); cursor++; }`, the cursor is incremented exactly as many times as "
                  "getline() is called at every loop level of the function (nested loops counted separately) -- an extra "
                  "increment per record makes every record after a gap come from the line before the wanted one: atoms get "
                  "their neighbours' reference coordinates")
    n = 0
    for f in sorted(F.funcs.values(), key=lambda g: g.q):
        if "/src/" not in f.file or f.body is None:
            continue
        cursors = {}
        for w in f.walk():
            if w["k"] != "WhileStmt":
                continue
            cond = X.kids(w)[0] if X.kids(w) else None
            if cond is None:
                continue
            cs = X.strip(cond)
            if cs["k"] != "BinaryOperator" or cs.get("op") not in ("<", "<="):
                continue
            l = X.strip(X.kids(cs)[0])
            if l["k"] != "DeclRefExpr" or "d" not in l:
                continue
            if not any(c["k"] == "CallExpr" and X.callee_name(c) == "getline" for c in f.walk(w)):
                continue
            cursors[l["d"]] = l.get("n")
        for d, name in cursors.items():
            n += 1

            def level_of(node):
                for an in f.ancestors(node):
                    if an["k"] in ("ForStmt", "WhileStmt", "DoStmt", "CXXForRangeStmt"):
                        return an["i"]
                return 0
            incs, gets = {}, {}
            first_decl = [x for x in f.walk() if x["k"] == "VarDecl" and x.get("d") == d]
            scope = f.parent(f.parent(first_decl[0])) if first_decl and f.parent(first_decl[0]) is not None else None
            for x in f.walk(scope):
                if x["k"] == "UnaryOperator" and x.get("op") in ("++", "post++") and X.strip(X.kids(x)[0]).get("d") == d:
                    incs[level_of(x)] = incs.get(level_of(x), 0) + 1
                elif x["k"] == "CompoundAssignOperator" and x.get("op") == "+=" and X.strip(X.kids(x)[0]).get("d") == d:
                    incs[level_of(x)] = incs.get(level_of(x), 0) + 1
                elif x["k"] == "CallExpr" and X.callee_name(x) == "getline":
                    gets[level_of(x)] = gets.get(level_of(x), 0) + 1
            bad = sorted(l for l in set(incs) | set(gets) if l != 0 and incs.get(l, 0) != gets.get(l, 0))
            rep.add(rid, "%s|%s" % (f.q, name), f.loc(first_decl[0]) if first_decl else f.loc(),
                    "%s: line cursor `%s` is advanced %s" % (f.q, name, "once per getline() at every loop level" if not bad else
                                                             "%s time(s) against %s getline() call(s) in one loop" % ([incs.get(l, 0) for l in bad], [gets.get(l, 0) for l in bad])), not bad,
                    detail="the cursor no longer equals the number of lines consumed", func=f.q)
    if n < 1:
        raise AnalysisBroken("%s: no line-skipping loop found (the XYZ reader expected)" % rid)


def r7(F, rep, rid="C02-R7"):
    rep.rule(rid, "a reader that cannot go back visits the atoms in increasing order: in a function that skips forward to wanted "
                  "lines (the line cursor of R6), the sequence of wanted numbers is taken from the accessor that returns the "
                  "member which create_sorted_ids() fills, not from the list in the user's order -- with a group listed out of "
                  "order the reader would silently take other atoms' lines")
    srt = F.one("colvarmodule::atom_group::create_sorted_ids")
    from .rules_c10 import lvalue_writes, member_root
    # members that create_sorted_ids() assigns (plain assignment, also of an element) or resizes -- not those it merely reads
    sorted_members = set()
    for w, t in lvalue_writes(srt):
        mr = member_root(t)
        if mr is None:
            continue
        if (w["k"] in ("BinaryOperator", "CXXOperatorCallExpr") and w.get("op") == "=") or \
           (w["k"] == "CXXMemberCallExpr" and X.callee_name(w) in ("resize", "assign", "push_back")):
            sorted_members.add(mr["q"])
    n = 0
    for f in sorted(F.funcs.values(), key=lambda g: g.q):
        if "/src/" not in f.file or f.body is None:
            continue
        for w in f.walk():
            if w["k"] != "WhileStmt" or not X.kids(w):
                continue
            cs = X.strip(X.kids(w)[0])
            if cs["k"] != "BinaryOperator" or cs.get("op") not in ("<", "<=") or not any(c["k"] == "CallExpr" and X.callee_name(c) == "getline" for c in f.walk(w)):
                continue
            wanted = [y for y in f.walk(X.kids(cs)[1]) if y["k"] == "DeclRefExpr" and y.get("st") == "local"]
            for y in wanted:
                decl = [d for d in f.walk() if d["k"] == "VarDecl" and d.get("d") == y.get("d")]
                if not decl or not X.kids(decl[0]):
                    continue
                srcs = [c for c in f.walk(X.kids(decl[0])[0]) if c["k"] == "CXXMemberCallExpr" and F.funcs.get(c.get("callee")) is not None]
                for c in srcs:
                    acc = F.funcs[c["callee"]]
                    ret = {m["q"] for r in acc.walk() if r["k"] == "ReturnStmt" for m in acc.walk(r) if m["k"] == "MemberExpr" and m.get("dk") == "Field"}
                    if not ret:
                        continue
                    n += 1
                    ok = bool(ret & sorted_members)
                    rep.add(rid, "%s|%s" % (f.q, y.get("n")), f.loc(decl[0]), "%s: the wanted line numbers `%s` come from %s(), which returns %s" % (
                        f.q, y.get("n"), acc.q, sorted(q.split("::")[-1] for q in ret)), ok,
                        detail="only the sorted list is increasing; its caller puts the coordinates back in the group's own order afterwards", func=f.q)
    if n < 1:
        raise AnalysisBroken("%s: no forward-skipping reader whose wanted numbers come from an accessor found" % rid)


def run(F, rep, tier):
    r7(F, rep)
    r6(F, rep)
    r1(F, rep)
    r2(F, rep)
    r3(F, rep)
    r4(F, rep)
    r5(F, rep)
