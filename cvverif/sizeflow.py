"""Forward dataflow over the CFG skeleton for the length of one std::vector V relative to one bound B.

Abstract value: a subset of {E, Q, O}
    E  V is empty
    Q  V.size() == B           (B > 0; with B == 0 the loops bounded by B do not run)
    O  V has some other length
Transfer functions (fill / size / escape) and edge filters (comparisons of V.size() with B or 0) are listed below;
everything unknown goes to the top element, so the analysis can only under-approximate what is *proved*, never
over-approximate it: a use reported safe is safe under the stated entry assumption.
"""
from . import expr as X
from . import cond as C

E, Q, O = "E", "Q", "O"
SIZES = (E, Q, O)
# second component: result of the most recent fill of V on this path ("T" found, "F" keyword absent, "-" none yet)
# third component: value of one correlated boolean local ("T", "F", "?"), see SizeFlow.track_flag
TOP = frozenset((s, g, b) for s in SIZES for g in ("T", "F", "-") for b in ("T", "F", "?"))


def sizes(st):
    return frozenset(x[0] for x in st)


def lift(ss, g="-"):
    return frozenset((s, g, "?") for s in ss)

CONST_METHODS = ("size", "empty", "begin", "end", "cbegin", "cend", "rbegin", "rend", "at", "back", "front", "data",
                 "capacity", "reserve", "operator[]", "max_size")
FILL = ("colvarparse::get_keyval",)
GROUP_FILL = ("add_index_group", "add_atom_numbers", "add_atom_numbers_range", "add_atom_name_residue_range", "add_atom",
              "add_atoms_of_group", "parse")


def norm(f, n):
    return X.re_strip(X.key(n, f, X.const_locals(f)))


class SizeFlow:
    def __init__(self, F, f, vk, bound, entry, literal=None):
        """vk: canonical key of the vector; bound: canonical key of B (or None in literal mode, where Q means
        V.size() == literal)."""
        self.F, self.f, self.vk, self.B, self.lit = F, f, X.re_strip(vk), bound, literal
        self.cfg = f.cfg
        self.entry = lift(entry)
        self.flag_q = set()      # member flags that are set to true only where the length is known to equal the bound
        self.flag_d = None       # declaration id of one boolean local whose value is tracked along the paths
        self.size_key = self.vk + ".size()"
        self._in = None
        self.notes = []

    # ---------------------------------------------------------------- expression classification
    def is_v(self, n):
        return n is not None and X.re_strip(X.key(n, self.f)) == self.vk

    def alias(self, n):
        """an integer local whose only definition is its initialiser stands for that initialiser."""
        n = X.strip(n)
        if n["k"] == "DeclRefExpr" and n.get("st") == "local":
            if not hasattr(self, "_alias"):
                from .rules_c10 import lvalue_writes
                written = {X.strip(t).get("d") for w, t in lvalue_writes(self.f) if X.strip(t)["k"] == "DeclRefExpr"}
                self._alias = {}
                for d in self.f.walk():
                    if d["k"] == "VarDecl" and d.get("st") == "local" and X.kids(d) and d.get("d") not in written:
                        self._alias[d["d"]] = X.kids(d)[0]
            init = self._alias.get(n.get("d"))
            if init is not None:
                return X.strip(init)
        return n

    def is_size(self, n):
        n = self.alias(n)
        if n["k"] == "CXXMemberCallExpr" and (n.get("cq") or "").split("::")[-1] in ("size", "length"):
            return self.is_v(X.receiver(n))
        return False

    def is_bound(self, n):
        if self.lit is not None:
            return C._lit(X.strip(n)) == self.lit
        return norm(self.f, self.alias(n)) == self.B

    def resolve_bool(self, n, at):
        """a boolean local whose only definition reaching `at` is its initialiser -> that initialiser."""
        n = X.strip(n)
        if n["k"] == "DeclRefExpr" and n.get("st") == "local":
            from .rules_c10 import lvalue_writes
            decl = None
            for d in self.f.walk():
                if d["k"] == "VarDecl" and d.get("d") == n.get("d"):
                    decl = d
            if decl is None or not X.kids(decl):
                return n
            for w, t in lvalue_writes(self.f):
                t = X.strip(t)
                if t["k"] == "DeclRefExpr" and t.get("d") == n.get("d") and self.cfg.can_reach(w, at):
                    return n
            return X.strip(X.kids(decl)[0])
        return n

    def truth(self, cond):
        """For the condition node: dict state -> set of possible truth values; None when the condition says nothing."""
        n = self.resolve_bool(cond, cond)
        n = X.strip(n)
        if n["k"] == "UnaryOperator" and n.get("op") == "!":
            t = self.truth(X.kids(n)[0])
            return None if t is None else {s: {not v for v in vs} for s, vs in t.items()}
        if n["k"] == "BinaryOperator" and n.get("op") in ("&&", "||"):
            ta, tb = [self.truth(k) for k in X.kids(n)]
            if ta is None and tb is None:
                return None
            both = {False, True}
            out = {}
            for s in TOP:
                va = ta[s] if ta is not None else both
                vb = tb[s] if tb is not None else both
                out[s] = {(a and b) if n["op"] == "&&" else (a or b) for a in va for b in vb}
            return out
        if self.is_fill(n):
            return {s: ({True} if s[1] == "T" else {False} if s[1] == "F" else {False, True}) for s in TOP}
        if n["k"] == "DeclRefExpr" and self.flag_d is not None and n.get("d") == self.flag_d:
            return {s: ({True} if s[2] == "T" else {False} if s[2] == "F" else {False, True}) for s in TOP}
        if n["k"] == "MemberExpr" and X.key(n, self.f) in self.flag_q:
            return {s: ({False, True} if s[0] == Q else {False}) for s in TOP}
        if n["k"] == "CXXMemberCallExpr" and (n.get("cq") or "").split("::")[-1] == "empty" and self.is_v(X.receiver(n)):
            return self._by_size({E: {True}, Q: {False}, O: {False}})
        if self.is_size(n):        # if (V.size())
            return self._by_size({E: {False}, Q: {True}, O: {True}})
        if n["k"] == "BinaryOperator" and n.get("op") in ("==", "!=", "<", ">", "<=", ">="):
            a, b = X.kids(n)
            op = n["op"]
            if self.is_size(b) and not self.is_size(a):
                a, b = b, a
                op = {"<": ">", ">": "<", "<=": ">=", ">=": "<="}.get(op, op)
            if not self.is_size(a):
                if self.lit is None:
                    for p, q, o in ((a, b, op), (b, a, {"<": ">", ">": "<", "<=": ">=", ">=": "<="}.get(op, op))):
                        if self.is_bound(p) and C._lit(X.strip(q)) == 0:
                            v = {"==": False, "!=": True, ">": True, ">=": True, "<": False, "<=": False}[o]
                            return {s: {v} for s in TOP}
                return None
            if C._lit(X.strip(b)) == 0 and self.lit != 0:
                tab = {"==": (True, False), "!=": (False, True), ">": (False, True), ">=": (True, True), "<": (False, False), "<=": (True, False)}[op]
                return self._by_size({E: {tab[0]}, Q: {tab[1]}, O: {tab[1]}})
            if self.is_bound(b):
                e = {"==": False, "!=": True, "<": True, "<=": True, ">": False, ">=": False}[op]
                q = {"==": True, "!=": False, "<": False, "<=": True, ">": False, ">=": True}[op]
                o = {False, True} if op in ("<", "<=", ">", ">=") else {op == "!="}
                return self._by_size({E: {e}, Q: {q}, O: o})
        return None

    @staticmethod
    def _by_size(d):
        return {s: d[s[0]] for s in TOP}

    def track_flag(self, use):
        """a boolean local that guards the use and is assigned literals in this function: tracked path-sensitively."""
        from .rules_c03 import structural_guards
        from .rules_c10 import lvalue_writes
        for cn, pol in structural_guards(self.f, use):
            for m in _walk(cn):
                if m["k"] == "DeclRefExpr" and m.get("st") == "local" and "bool" in self.f.typestr(m.get("t")):
                    d = m.get("d")
                    ws = [w for w, t in lvalue_writes(self.f) if X.strip(t)["k"] == "DeclRefExpr" and X.strip(t).get("d") == d]
                    if ws and all(w["k"] == "BinaryOperator" and w.get("op") == "=" and C._lit(X.strip(X.kids(w)[1])) in (0, 1) for w in ws):
                        self.flag_d = d
                        self._in = None
                        return

    def is_fill(self, n):
        n = X.strip(n)
        if n["k"] in ("CXXMemberCallExpr", "CallExpr") and (n.get("cq") or "") in FILL:
            a = X.call_args(n)
            return len(a) >= 3 and self.is_v(a[2])
        return False

    # ---------------------------------------------------------------- transfer
    def preserves_size(self, g, pidx, depth=0):
        """callee g only reads/writes elements of its parameter pidx (never changes its length)."""
        if g is None or g.body is None or pidx >= len(g.params) or depth > 2:
            return False
        d = g.params[pidx]["d"]
        for n in g.walk():
            if n["k"] != "DeclRefExpr" or n.get("d") != d:
                continue
            # climb through derefs/parens/casts to the construct that uses the parameter
            cur = n
            use = None
            for a in g.ancestors(n):
                if a["k"] in ("ImplicitCastExpr", "ParenExpr") or (a["k"] == "UnaryOperator" and a.get("op") in ("*",)):
                    cur = a
                    continue
                use = a
                break
            if use is None:
                return False
            if use["k"] == "CXXMemberCallExpr" and X.receiver(use) is not None and any(x is n for x in [X.strip(X.receiver(use))] + list(_walk(X.receiver(use)))):
                if (use.get("cq") or "").split("::")[-1] in CONST_METHODS:
                    continue
                return False
            if use["k"] == "MemberExpr":
                # pos->size() : MemberExpr then call
                nm = use.get("n")
                if nm in CONST_METHODS:
                    continue
                return False
            if use["k"] == "CXXOperatorCallExpr" and use.get("op") == "[]":
                continue
            if use["k"] in ("CallExpr", "CXXMemberCallExpr", "CXXConstructExpr"):
                args = X.call_args(use)
                idx = [i for i, a in enumerate(args) if any(x is n for x in _walk(a))]
                h = self.F.funcs.get(use.get("callee"))
                if h is not None and idx and all(self.preserves_size(h, i, depth + 1) for i in idx):
                    continue
                if h is not None and idx and all(i < len(h.params) and "const" in h.typestr(h.params[i]["t"]) for i in idx):
                    continue
                return False
            return False
        return True

    def apply(self, n, st):
        """state after executing CFG element n."""
        k = n["k"]
        if self.flag_d is not None:
            if k == "BinaryOperator" and n.get("op") == "=":
                t = X.strip(X.kids(n)[0])
                if t["k"] == "DeclRefExpr" and t.get("d") == self.flag_d:
                    v = C._lit(X.strip(X.kids(n)[1]))
                    return frozenset((x[0], x[1], "T" if v == 1 else "F" if v == 0 else "?") for x in st)
            if k in ("DeclStmt", "VarDecl"):
                for d in ([n] if k == "VarDecl" else [c for c in X.kids(n) if c is not None and c["k"] == "VarDecl"]):
                    if d.get("d") == self.flag_d and X.kids(d):
                        v = C._lit(X.strip(X.kids(d)[0]))
                        return frozenset((x[0], x[1], "T" if v == 1 else "F" if v == 0 else "?") for x in st)
        if k in ("CXXMemberCallExpr", "CallExpr"):
            cq = n.get("cq") or ""
            args = X.call_args(n)
            if cq in FILL and len(args) >= 3 and self.is_v(args[2]):
                out = set()
                for s, _, b in st:
                    out.add((s, "F", b))                    # keyword absent: V unchanged
                    if s == E:
                        out |= {(E, "T", b), (Q, "T", b), (O, "T", b)}   # as many values as the user wrote
                    else:
                        out.add((s, "T", b))                # a non-empty vector keeps its length
                return frozenset(out)
            r = X.receiver(n) if k == "CXXMemberCallExpr" else None
            if r is not None and self.is_v(r):
                m = cq.split("::")[-1]
                if m in GROUP_FILL and "atom_group" in cq:
                    return frozenset((x, "-", y[2]) for x in SIZES for y in st)   # as many atoms as the index file / the user lists
                if m in CONST_METHODS:
                    return st
                if m in ("resize", "assign") and args and self.is_bound(args[0]):
                    return frozenset((Q, x[1], x[2]) for x in st)
                if m == "clear":
                    return frozenset((E, x[1], x[2]) for x in st)
                self.notes.append("line %s: %s() changes the length" % (n.get("l"), m))
                return frozenset((z, x[1], x[2]) for z in SIZES for x in st)
            # escapes
            esc = [i for i, a in enumerate(args) if self._mentions_v_lvalue(a)]
            if esc:
                g = self.F.funcs.get(n.get("callee"))
                ref = set(n.get("refargs") or [])
                for i in esc:
                    a = X.strip(args[i])
                    by_addr = a["k"] == "UnaryOperator" and a.get("op") == "&"
                    if not by_addr and i not in ref:
                        continue        # by value / const reference
                    if g is not None and self.preserves_size(g, i):
                        continue
                    self.notes.append("line %s: passed to %s, which may change the length" % (n.get("l"), cq))
                    return frozenset((z, x[1], x[2]) for z in SIZES for x in st)
            return st
        if k == "CXXOperatorCallExpr" and n.get("op") == "=":
            args = X.call_args(n)
            if args and self.is_v(args[0]):
                self.notes.append("line %s: assigned" % n.get("l"))
                return frozenset((z, x[1], x[2]) for z in SIZES for x in st)
        return st

    def _mentions_v_lvalue(self, a):
        a = X.strip(a)
        if a["k"] == "UnaryOperator" and a.get("op") == "&":
            a = X.strip(X.kids(a)[0])
        return self.is_v(a)

    # ---------------------------------------------------------------- fixpoint
    def solve(self):
        cfg = self.cfg
        nodes = self.f.nodes
        IN = {b: frozenset() for b in cfg.blocks}
        IN[cfg.entry] = self.entry
        for b in cfg.extra_entry:
            IN[b] = IN[b] | self.entry
        work = [cfg.entry] + list(cfg.extra_entry)
        self._out_cache = {}
        while work:
            b = work.pop()
            st = IN[b]
            blk = cfg.blocks[b]
            for nid in blk["e"]:
                n = nodes.get(nid)
                if n is not None:
                    st = self.apply(n, st)
            succ = cfg.succ.get(b, [])
            t = None
            if blk.get("cond") is not None and len(succ) == 2 and blk.get("tk") not in ("SwitchStmt", "CXXTryStmt"):
                cn = nodes.get(blk["cond"])
                if cn is not None:
                    t = self.truth(cn)
            for i, s in enumerate(succ):
                if s is None:
                    continue
                out = st
                if t is not None:
                    want = (i == 0)
                    out = frozenset(x for x in st if want in t[x])
                new = IN[s] | out
                if new != IN[s]:
                    IN[s] = new
                    work.append(s)
        self._in = IN
        return IN

    def learn_flags(self):
        """member booleans written in this function only as `flag = true` at points where the length equals the bound
        (and `flag = false` anywhere): testing such a flag selects the validated length (or the entry assumption)."""
        from .rules_c10 import lvalue_writes
        self.solve()
        cand = {}
        for w, t in lvalue_writes(self.f):
            t = X.strip(t)
            if t["k"] != "MemberExpr" or "bool" not in self.f.typestr(t.get("t")):
                continue
            k = X.key(t, self.f)
            if not (w["k"] == "BinaryOperator" and w.get("op") == "="):
                cand[k] = False
                continue
            v = C._lit(X.strip(X.kids(w)[1]))
            if v in (False, 0):
                cand.setdefault(k, True)
                continue
            if v in (True, 1) and sizes(self.state_at(w)) <= {Q}:
                cand.setdefault(k, True)
                continue
            cand[k] = False
        new = {k for k, ok in cand.items() if ok}
        if new:
            self.flag_q = new
            self._in = None
            self.solve()

    def state_at(self, node):
        if self._in is None:
            self.solve()
        pos = self.cfg.block_of(node)
        if pos is None:
            return TOP
        b, idx = pos
        st = self._in[b]
        for nid in self.cfg.blocks[b]["e"][:idx]:
            n = self.f.nodes.get(nid)
            if n is not None:
                st = self.apply(n, st)
        return st


def _walk(n):
    yield n
    for c in X.kids(n):
        if c is not None:
            yield from _walk(c)
