"""CFG utilities over the skeleton exported by cvfacts (clang::CFG with
setAllAlwaysAdd, no EH edges).  Catch handlers are made reachable from the entry
(conservative: their guards are unknown)."""


class CFG:
    def __init__(self, func):
        raw = func.cfg_raw
        self.func = func
        self.ok = raw is not None
        self.blocks = {}
        self.entry = None
        self.exit = None
        self.node_pos = {}   # node id -> (block id, index)
        self._edge_reach = None
        if not raw:
            return
        self.entry = raw["entry"]
        self.exit = raw["exit"]
        for b in raw["blocks"]:
            self.blocks[b["id"]] = b
            for idx, nid in enumerate(b["e"]):
                # a node may appear in two blocks (rare); keep the first
                self.node_pos.setdefault(nid, (b["id"], idx))
        # handlers: conservative entry edges
        self.handler_blocks = [b["id"] for b in raw["blocks"] if b.get("handler")]
        # try-dispatch blocks (terminator CXXTryStmt) are predecessors of handlers
        self.succ = {}
        for b in raw["blocks"]:
            self.succ[b["id"]] = [s for s in b["s"]]
        self.extra_entry = set()
        for b in raw["blocks"]:
            if b.get("tk") == "CXXTryStmt":
                self.extra_entry.add(b["id"])
        self.cond_kind = {}
        for b in raw["blocks"]:
            if b.get("cond") is not None:
                self.cond_kind[b["cond"]] = b.get("tk")
        self.pred = {}
        for b, ss in self.succ.items():
            for s in ss:
                if s is not None:
                    self.pred.setdefault(s, []).append(b)

    # ---- queries
    def block_of(self, node):
        """(block, index) of a node; falls back to the nearest enclosing node
        that is a CFG element."""
        nid = node["i"] if isinstance(node, dict) else node
        if nid in self.node_pos:
            return self.node_pos[nid]
        f = self.func
        n = f.nodes.get(nid)
        while n is not None:
            if n["i"] in self.node_pos:
                return self.node_pos[n["i"]]
            n = f.parent(n)
        return None

    def reachable(self, removed=frozenset(), start=None, stop_blocks=frozenset()):
        """Set of blocks reachable from entry (or start) with the given
        (block, succ_index) edges removed; traversal does not continue *through*
        stop_blocks (they are still reported reachable)."""
        seen = set()
        stack = [self.entry if start is None else start]
        if start is None:
            stack += list(self.extra_entry)
        while stack:
            b = stack.pop()
            if b in seen or b is None:
                continue
            seen.add(b)
            if b in stop_blocks:
                continue
            for i, s in enumerate(self.succ.get(b, ())):
                if s is None or (b, i) in removed:
                    continue
                if s not in seen:
                    stack.append(s)
        return seen

    def cond_blocks(self):
        """Blocks with a two-way conditional terminator: yields (block id, cond node id)."""
        for bid, b in self.blocks.items():
            if b.get("cond") is not None and len(b["s"]) == 2 and b.get("tk") not in ("SwitchStmt", "CXXTryStmt"):
                if b["s"][0] != b["s"][1]:
                    yield bid, b["cond"]

    def real_guards(self, node):
        """guards() without loop-exit edges (a loop's false edge is taken by every
        terminating execution, so it is not a condition on reaching the code after it)."""
        out = []
        for cond, pol in self.guards(node):
            if not pol and self.cond_kind.get(cond) in ("ForStmt", "WhileStmt", "DoStmt", "CXXForRangeStmt"):
                continue
            out.append((cond, pol))
        return out

    def guards(self, node):
        """Edge-dominating guards of a node: list of (cond node id, polarity) such
        that the node's block is unreachable from the entry once the edge taken
        when cond == polarity ... is the ONLY way, i.e. removing that edge makes
        the site unreachable.  polarity True means `cond` must have been true."""
        pos = self.block_of(node)
        if pos is None:
            return []
        target = pos[0]
        if self._edge_reach is None:
            base = self.reachable()
            er = []
            for bid, cond in self.cond_blocks():
                if bid not in base:
                    continue
                for idx, pol in ((0, True), (1, False)):
                    er.append((cond, pol, self.reachable(removed={(bid, idx)})))
            self._edge_reach = (base, er)
        base, er = self._edge_reach
        if target not in base:
            return []
        return [(cond, pol) for cond, pol, r in er if target not in r]

    def is_reachable(self, node):
        pos = self.block_of(node)
        return pos is not None and pos[0] in self.reachable()

    def dominates(self, a, b):
        """Node a executes before node b on every entry->b path."""
        pa, pb = self.block_of(a), self.block_of(b)
        if pa is None or pb is None:
            return False
        if pa[0] == pb[0]:
            return pa[1] < pb[1]
        # remove block pa: is pb still reachable?
        r = self.reachable(stop_blocks={pa[0]})
        # pa[0] itself is in r; pb reachable without passing through pa?
        return pb[0] not in r or pb[0] == pa[0]

    def can_reach(self, a, b, avoiding=()):
        """Is there a path from after node a to node b avoiding nodes in `avoiding`
        (each given as node)?  Block-granular with intra-block ordering."""
        pa, pb = self.block_of(a), self.block_of(b)
        if pa is None or pb is None:
            return False
        av = [self.block_of(x) for x in avoiding]
        av = [x for x in av if x is not None]
        # same block, b after a, and no avoid between
        if pa[0] == pb[0] and pa[1] < pb[1]:
            if not any(x[0] == pa[0] and pa[1] < x[1] < pb[1] for x in av):
                return True
        # leaving a's block: blocked if an avoid node sits after a in its block
        if any(x[0] == pa[0] and x[1] > pa[1] for x in av):
            return False
        # blocks fully blocked: those containing an avoid node (entering them and
        # reaching b inside before the avoid node is handled below)
        avblocks = {}
        for x in av:
            avblocks[x[0]] = min(avblocks.get(x[0], 1 << 30), x[1])
        seen = set()
        stack = [s for s in self.succ.get(pa[0], ()) if s is not None]
        while stack:
            blk = stack.pop()
            if blk in seen:
                continue
            seen.add(blk)
            if blk == pb[0]:
                if blk not in avblocks or avblocks[blk] > pb[1]:
                    return True
            if blk in avblocks:
                continue
            for s in self.succ.get(blk, ()):
                if s is not None and s not in seen:
                    stack.append(s)
        return False

    def can_reach_feasible(self, a, b, feasible):
        """Like can_reach, but an edge (block, succ index) is followed only if
        feasible(block id, succ index) is true."""
        pa, pb = self.block_of(a), self.block_of(b)
        if pa is None or pb is None:
            return False
        if pa[0] == pb[0] and pa[1] < pb[1]:
            return True
        seen = set()
        stack = [pa[0]]
        first = True
        while stack:
            blk = stack.pop()
            if not first:
                if blk in seen:
                    continue
                seen.add(blk)
                if blk == pb[0]:
                    return True
            first = False
            for i, s in enumerate(self.succ.get(blk, ())):
                if s is None or s in seen:
                    continue
                if not feasible(blk, i):
                    continue
                stack.append(s)
        return False

    def exits_from(self, node, avoiding=()):
        """Can the function exit be reached from after `node` while avoiding the
        given nodes?"""
        pa = self.block_of(node)
        if pa is None:
            return False
        av = [self.block_of(x) for x in avoiding]
        av = [x for x in av if x is not None]
        if any(x[0] == pa[0] and x[1] > pa[1] for x in av):
            return False
        avblocks = {x[0] for x in av}
        seen = set()
        stack = [s for s in self.succ.get(pa[0], ()) if s is not None]
        while stack:
            blk = stack.pop()
            if blk in seen:
                continue
            seen.add(blk)
            if blk == self.exit:
                return True
            if blk in avblocks:
                continue
            for s in self.succ.get(blk, ()):
                if s is not None and s not in seen:
                    stack.append(s)
        return False
