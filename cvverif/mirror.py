"""Lower/upper mirror rule (shared by C05, C06, C15, C17).

Colvars treats the two ends of an interval (lower/upper boundary, wall, hard-boundary flag, reflecting flag) by pairs of
adjacent sibling statements of identical shape, one naming only lower-side entities and one naming only upper-side
ones.  Rule: whenever two ADJACENT sibling statements have the same syntactic skeleton and one of them names entities
of one side only, the other must name entities of the opposite side only.  A statement that mixes sides next to its
pure mirror image is the classic copy-and-paste slip (`hard_lower_boundaries[i]` tested before `du` is used).

Side of an entity: a field, function, enumerator or variable whose name contains `lower` but not `upper` (or the
reverse); a local whose initialiser names entities of one side only (dl / du) inherits that side.  Pairs in which
neither statement is pure (both legitimately mention both ends) are not instances.
"""
from . import expr as X


def side_of_name(n):
    n = (n or "").lower()
    l, u = "lower" in n, "upper" in n
    if l and not u:
        return "L"
    if u and not l:
        return "U"
    return None


def sides(f, node, linit, depth=0):
    out = []
    for x in f.walk(node):
        nm = None
        if x["k"] == "MemberExpr":
            nm = x.get("n")
        elif x["k"] == "DeclRefExpr":
            nm = x.get("n")
            if side_of_name(nm) is None and x.get("st") == "local" and x.get("d") in linit and depth < 2:
                ss = {s for s, _ in sides(f, linit[x["d"]], linit, depth + 1)}
                if len(ss) == 1:
                    out.append((next(iter(ss)), nm))
                continue
        elif x["k"] in ("CXXMemberCallExpr", "CallExpr"):
            nm = (x.get("cq") or "").split("::")[-1]
        if nm:
            s = side_of_name(nm)
            if s:
                out.append((s, nm))
    return out


def skeleton(n):
    op = n.get("op")
    tag = n["k"] + (":" + str(op) if op and op not in ("<", ">", "<=", ">=") else "")
    return "(" + tag + "".join(skeleton(c) for c in n.get("c", []) if c is not None) + ")"


def pairs(f):
    """Yield (stmt_a, stmt_b, sides_a, sides_b) for adjacent mirror candidates in f."""
    linit = {}
    for n in f.walk():
        if n["k"] == "VarDecl" and "d" in n and X.kids(n):
            linit[n["d"]] = X.kids(n)[0]
    for comp in f.walk():
        if comp["k"] != "CompoundStmt":
            continue
        stmts = [c for c in comp.get("c", []) if c is not None]
        for a, b in zip(stmts, stmts[1:]):
            if a["k"] != b["k"] or a["k"] == "DeclStmt":
                continue
            sa, sb = sides(f, a, linit), sides(f, b, linit)
            if not sa or not sb:
                continue
            pa, pb = {s for s, _ in sa}, {s for s, _ in sb}
            if len(pa) == 1 and pa == pb:
                continue          # the same side twice is not a mirror pair
            if len(pa) > 1 and len(pb) > 1:
                continue          # both statements mention both ends on purpose
            if skeleton(a) != skeleton(b):
                continue
            yield a, b, sa, sb


def check(F, rep, rid, want_func, floor, what):
    """Bind the mirror rule to the functions selected by want_func(Func)."""
    from .facts import AnalysisBroken
    rep.rule(rid, "lower/upper mirror rule in %s: of two adjacent sibling statements with the same shape, if one names only "
                  "lower-side (upper-side) entities the other names only entities of the opposite side" % what)
    n = 0
    seen = set()
    for f in F.funcs.values():
        if "/src/" not in f.file or not want_func(f):
            continue
        ordinal = {}
        for a, b, sa, sb in pairs(f):
            names = ",".join(sorted({nm for _, nm in sa}))
            base = "%s|%s" % (f.q, names)
            ordinal[base] = ordinal.get(base, 0) + 1
            key = "%s|#%d" % (base, ordinal[base])
            if key in seen:       # template instantiations of the same body
                continue
            seen.add(key)
            n += 1
            pa, pb = {s for s, _ in sa}, {s for s, _ in sb}
            ok = len(pa) == 1 and len(pb) == 1 and pa != pb
            rep.add(rid, key, f.loc(b), "%s: `%s` next to `%s`" % (
                f.q, " ".join("%s:%s" % (s, nm) for s, nm in sa)[:110], " ".join("%s:%s" % (s, nm) for s, nm in sb)[:110]), ok,
                detail="one end of the interval is handled with the other end's flag or value", func=f.q)
    if n < floor:
        raise AnalysisBroken("%s: only %d lower/upper mirror pairs found (floor %d)" % (rid, n, floor))
    return n


def copy_like_to_like(F, rep, rid, want_cls, floor):
    """Copy constructors: a member initialised from a member of the object being copied is initialised from the member of
    the SAME name (hard_upper_boundaries(g.hard_upper_boundaries), never g.hard_lower_boundaries)."""
    from .facts import AnalysisBroken
    from . import expr as X
    n = 0
    seen = set()
    for f in F.funcs.values():
        if not f.ctor or "/src/" not in f.file or not want_cls(f.cls or "") or len(f.params) != 1:
            continue
        pt = f.typestr(f.params[0]["t"])
        base = (f.cls or "").split("<")[0]
        if base not in pt or "&" not in pt:
            continue
        pd = f.params[0]["d"]
        for it in f.inits:
            m = it.get("member")
            e = it.get("e") or it.get("init")
            if not m or e is None or not it.get("written"):
                continue
            srcs = [x for x in f.walk(e) if x["k"] == "MemberExpr" and X.kids(x) and X.strip(X.kids(x)[0])["k"] == "DeclRefExpr" and X.strip(X.kids(x)[0]).get("d") == pd]
            if len(srcs) != 1:
                continue
            key = "%s|%s" % (f.q.split("<")[0], m)
            if key in seen:
                continue
            seen.add(key)
            n += 1
            ok = srcs[0].get("n") == m
            rep.add(rid, "copy|" + key, f.loc(), "%s: member `%s` is copied from `%s.%s`" % (f.q, m, f.params[0]["n"], srcs[0].get("n")), ok,
                    detail="the copy carries another member's value under this member's name", func=f.q)
    if n < floor:
        raise AnalysisBroken("%s: only %d member-wise copies found in copy constructors (floor %d)" % (rid, n, floor))
    return n
