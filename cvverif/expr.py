"""Expression helpers over the node trees emitted by cvfacts."""

CAST_KINDS = ("ImplicitCastExpr", "CStyleCastExpr", "CXXStaticCastExpr", "CXXFunctionalCastExpr",
              "CXXConstCastExpr", "CXXReinterpretCastExpr")


def kids(n):
    return [c for c in n.get("c", ()) if c is not None]


def strip(n, explicit=True):
    """Strip casts (implicit always, explicit value casts optionally)."""
    while n is not None:
        k = n["k"]
        if k == "ImplicitCastExpr" or (explicit and k in CAST_KINDS):
            cs = kids(n)
            if len(cs) != 1:
                return n
            n = cs[0]
            continue
        if k == "CXXConstructExpr" and len(kids(n)) == 1 and n.get("cq", "").split("::")[-1] in ():
            n = kids(n)[0]
            continue
        return n
    return n


def is_int_type(t):
    t = t.replace("const ", "").strip()
    return t in ("int", "unsigned int", "long", "unsigned long", "long long", "unsigned long long",
                 "short", "unsigned short", "char", "unsigned char", "signed char", "bool")


def key(n, f=None, resolve_const=None, depth=0):
    """Canonical textual key of an expression: casts stripped, names resolved to
    declarations (locals carry their decl id so two different locals with the
    same name differ), commutative + and * operands sorted.  Used only to decide
    'these two operands are the same expression'."""
    if n is None:
        return "<null>"
    n = strip(n)
    k = n["k"]
    if k == "DeclRefExpr":
        if resolve_const and n.get("d") in resolve_const and depth < 6:
            return key(resolve_const[n["d"]], f, resolve_const, depth + 1)
        if n.get("st") in ("local", "param", "static_local"):
            return "%s#%s" % (n["n"], n.get("d"))
        return n.get("q") or n["n"]
    if k == "MemberExpr":
        cs = kids(n)
        b = key(cs[0], f, resolve_const, depth) if cs else "?"
        if b == "this":
            return "this." + n["n"]
        return "%s.%s" % (b, n["n"])
    if k == "CXXThisExpr":
        return "this"
    if k in ("IntegerLiteral", "FloatingLiteral", "CXXBoolLiteralExpr", "CharacterLiteral"):
        return repr(n.get("v"))
    if k == "StringLiteral":
        return repr(n.get("v"))
    if k in ("BinaryOperator", "CompoundAssignOperator"):
        cs = kids(n)
        a, b = key(cs[0], f, resolve_const, depth), key(cs[1], f, resolve_const, depth)
        op = n["op"]
        if op in ("+", "*", "==", "!=", "&&", "||") and b < a:
            a, b = b, a
        return "(%s %s %s)" % (a, op, b)
    if k == "UnaryOperator":
        return "(%s %s)" % (n["op"], key(kids(n)[0], f, resolve_const, depth))
    if k in ("CallExpr", "CXXMemberCallExpr", "CXXOperatorCallExpr"):
        cs = kids(n)
        cal = n.get("cq") or (key(cs[0], f, resolve_const, depth) if cs else "?")
        if k == "CXXMemberCallExpr" and cs:
            callee = strip(cs[0])
            recv = key(kids(callee)[0], f, resolve_const, depth) if callee["k"] == "MemberExpr" and kids(callee) else "?"
            return "%s.%s(%s)" % (recv, n.get("cq", "?").split("::")[-1],
                                  ", ".join(key(a, f, resolve_const, depth) for a in cs[1:]))
        if k == "CXXOperatorCallExpr":
            return "op%s(%s)" % (n.get("op"), ", ".join(key(a, f, resolve_const, depth) for a in cs[1:]))
        return "%s(%s)" % (cal, ", ".join(key(a, f, resolve_const, depth) for a in cs[1:]))
    if k in ("CXXConstructExpr", "CXXTemporaryObjectExpr"):
        cs = [c for c in kids(n) if c["k"] != "CXXDefaultArgExpr"]
        if len(cs) == 1:
            return key(cs[0], f, resolve_const, depth)
        return "%s{%s}" % (n.get("rc", "?"), ", ".join(key(a, f, resolve_const, depth) for a in cs))
    if k == "ArraySubscriptExpr":
        cs = kids(n)
        return "%s[%s]" % (key(cs[0], f, resolve_const, depth), key(cs[1], f, resolve_const, depth))
    if k == "ConditionalOperator":
        cs = n.get("c")
        return "(%s ? %s : %s)" % tuple(key(c, f, resolve_const, depth) for c in cs)
    if k == "UnaryExprOrTypeTraitExpr":
        if f is not None:
            return "%s(%s)" % (n.get("ue"), f.typestr(n.get("at")))
        return "%s(#%s)" % (n.get("ue"), n.get("at"))
    if k == "CXXDefaultArgExpr":
        cs = kids(n)
        return key(cs[0], f, resolve_const, depth) if cs else "<default>"
    if k == "CXXNullPtrLiteralExpr" or k == "GNUNullExpr":
        return "nullptr"
    cs = kids(n)
    return "%s(%s)" % (k, ", ".join(key(c, f, resolve_const, depth) for c in cs))


def text(n, f=None):
    """Human-readable rendering for reports (same as key but without decl ids)."""
    import re
    return re.sub(r"#\d+", "", key(n, f))


def const_locals(f):
    """Map decl id -> init node for const-qualified (or never reassigned, single
    definition) scalar locals; used to look through `size_t const n = ...`."""
    out = {}
    assigned = set()
    for n in f.walk():
        if n["k"] in ("BinaryOperator", "CompoundAssignOperator") and n["op"].endswith("=") and n["op"] not in ("==", "!=", "<=", ">="):
            l = strip(kids(n)[0])
            if l["k"] == "DeclRefExpr" and "d" in l:
                assigned.add(l["d"])
        elif n["k"] == "UnaryOperator" and n["op"] in ("++", "--", "post++", "post--", "&"):
            l = strip(kids(n)[0])
            if l["k"] == "DeclRefExpr" and "d" in l:
                assigned.add(l["d"])
    for n in f.walk():
        if n["k"] == "VarDecl" and n.get("st") == "local" and not n.get("ref"):
            cs = kids(n)
            if len(cs) == 1 and n.get("const"):
                out[n["d"]] = cs[0]
    return out


def calls(f, n=None):
    for x in f.walk(n):
        if x["k"] in ("CallExpr", "CXXMemberCallExpr", "CXXOperatorCallExpr", "CXXConstructExpr",
                      "CXXTemporaryObjectExpr"):
            yield x


def call_args(n):
    """Argument nodes of a call (without the callee expression; for member operator
    calls the object is args[0])."""
    cs = n.get("c", [])
    if n["k"] in ("CXXConstructExpr", "CXXTemporaryObjectExpr"):
        return [c for c in cs if c is not None]
    return [c for c in cs[1:] if c is not None]


def receiver(n):
    """Receiver expression node of a CXXMemberCallExpr (None for implicit this?)."""
    if n["k"] != "CXXMemberCallExpr":
        return None
    cs = kids(n)
    if not cs:
        return None
    callee = strip(cs[0])
    if callee["k"] == "MemberExpr" and kids(callee):
        return kids(callee)[0]
    return None


def callee_name(n):
    return (n.get("cq") or "").split("::")[-1]


def mentions(n, pred):
    stack = [n]
    while stack:
        x = stack.pop()
        if x is None:
            continue
        if pred(x):
            return True
        stack.extend(x.get("c", ()))
    return False


def re_strip(s):
    import re
    return re.sub(r"#\d+", "", s)
