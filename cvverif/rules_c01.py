"""C01  Applied atomic forces are the exact negative gradient of the reported energy.

Only the clauses whose truth is in the shape of the code are decided here (see DESIGN.md): which atoms receive a
force at all, through which layer, under which configuration flags, and whether sibling formulas use the same
coefficients.  The arithmetic of each gradient is NOT decided (no rule below would notice a flipped sign).

R1  group coverage: every atom group whose coordinates enter a component's calc_value() receives that component's
    force: it is handed to the atom-group force layer in the component's own apply_force(), or its atomic gradients
    are set in calc_value()/calc_gradients() and the default cvc::apply_force() (which walks all registered groups)
    is in effect; conditional groups (ref2 under !fixed_axis) get their gradients under the same configuration flags
R2  the polynomial chain rule d(c x^n) = c n x^(n-1) dx is spelled with the same c, n and x at every site that
    applies it, and colvar::collect_cvc_values() / communicate_forces() split into the same cases
R3  energy and force come from the same set of biases: update(), get_energy() and communicate_forces() range over
    biases_active(); the summed energy reaches proxy->add_energy() on every path; a restraint computes energy and
    force of variable i in the same loop from sibling virtuals
R4  the rotation of a group is used on forces/gradients only where the group is rotated (f_ag_rotate), and fit
    gradients/forces are applied exactly under the flags under which they are computed
R5  composite components: every container of sub-components evaluated in calc_value() is also differentiated in
    calc_gradients() and forced in apply_force(); where the value is linear in a sub-value the force and the collected
    gradient use the same coefficient
R6  layering: atom::apply_force() is called only from the atom-group layer (atom_group::apply_colvar_force,
    group_force_object), which rotates forces back to the laboratory frame and adds the forces on the fitting group
R12 the winner of a search loop is reset at every evaluation
R13 the scalar and the non-scalar branch of a value-type dispatch keep one sign convention
R14 a helper's compute() refreshes the derivative it hands out whenever it refreshes the value
R11 value and force of a per-coordinate vector component use the same element <-> coordinate map
R10 fit gradients are switched off only by components whose value is stationary under the fit (squared deviations)
R9  a quadratic energy and the force terms next to it share the prefactor
R8  cached group totals: where a function refreshes a per-atom quantity from the engine (atom::update_mass/charge), every
    exit passes through the function that recomputes the group total summed from that quantity (total_mass,
    total_charge; the gradients of the dipole components divide one by the other); functions that adjust one total
    incrementally adjust the other as well
"""
import re

from . import expr as X
from . import cond as C
from .facts import AnalysisBroken
from .common import load_table
from .rules_c10 import lvalue_writes

CVC = "colvar::cvc"


# ------------------------------------------------------------------------------------------------ helpers
def closure(F, cls, start, limit=60):
    """Functions run on the same object from method `start` of class cls, virtual calls resolved for cls."""
    fam = set(F.bases(cls)) | {cls}
    out, stack = {}, list(F.find_method(cls, start))
    while stack:
        g = stack.pop()
        if g.m in out or len(out) > limit:
            continue
        out[g.m] = g
        for c in X.calls(g):
            t = F.funcs.get(c.get("callee"))
            nm = X.callee_name(c)
            r = X.receiver(c) if c["k"] == "CXXMemberCallExpr" else None
            on_this = r is None or X.strip(r)["k"] == "CXXThisExpr"
            if c["k"] == "CXXMemberCallExpr" and not on_this:
                # pimpl helpers: impl_->helper(this) works on this object through its parameter
                if t is not None and "/src/" in t.file:
                    for i, a in enumerate(X.call_args(c)):
                        if X.strip(a)["k"] == "CXXThisExpr" and i < len(t.params):
                            _ALIAS.setdefault(t.m, set()).add(t.params[i]["d"])
                            stack.append(t)
                continue
            if c.get("virt") or t is None:
                cq = c.get("cq", "")
                owner = cq.rsplit("::", 1)[0] if "::" in cq else None
                if owner in fam or any(owner == b for b in fam):
                    for g2 in F.find_method(cls, nm):
                        stack.append(g2)
                continue
            if t.cls in fam or (t.cls is None and t.is_lambda):
                stack.append(t)
        for n in g.walk():
            if n["k"] == "LambdaExpr" and n.get("m") in F.funcs:
                stack.append(F.funcs[n["m"]])
    return list(out.values())


_ALIAS = {}   # function mangled name -> decl ids of parameters that stand for the component (`this` passed to a pimpl helper)


def this_field(n, f=None):
    """MemberExpr this->f (or obj->f where obj is a parameter bound to `this` by the caller) -> f's name, else None."""
    n = X.strip(n)
    if n is not None and n["k"] == "MemberExpr" and n.get("dk") == "Field" and X.kids(n):
        b = X.strip(X.kids(n)[0])
        if b is not None and b["k"] == "CXXThisExpr":
            return n["n"]
        if b is not None and f is not None and b["k"] == "DeclRefExpr" and b.get("d") in _ALIAS.get(f.m, ()):
            return n["n"]
    return None


def group_fields_in(f, root=None):
    """{field name: [nodes]} for uses of this->g with g an atom_group* (or a vector of them) that can reach the
    coordinates: uses that only ask for the number of atoms (g->size()) or test the pointer are not reads."""
    out = {}
    for n in f.walk(root):
        if n["k"] == "MemberExpr" and n.get("dk") == "Field":
            t = f.type(n)
            if "atom_group" in t and "*" in t and this_field(n, f):
                p = f.parent(n)
                while p is not None and p["k"] in ("ImplicitCastExpr", "UnaryOperator", "ArraySubscriptExpr", "ParenExpr") and p.get("op", "*") == "*":
                    p = f.parent(p)
                if p is not None and p["k"] == "CXXOperatorCallExpr" and p.get("op") in ("[]", "*"):
                    q = f.parent(p)
                    while q is not None and ((q["k"] == "UnaryOperator" and q.get("op") == "*") or q["k"] == "ImplicitCastExpr"):
                        q = f.parent(q)
                    if q is not None and q["k"] == "MemberExpr" and q.get("n") == "size":
                        continue
                if p is not None and p["k"] == "MemberExpr" and p.get("n") in ("size", "noforce", "b_dummy", "is_enabled"):
                    continue
                if p is not None and p["k"] in ("IfStmt", "BinaryOperator") and p.get("op") in ("!=", "==", None) and p["k"] != "BinaryOperator":
                    continue
                out.setdefault(n["n"], []).append(n)
    return out


def local_inits(f):
    """decl id -> initialiser (or range expression) of local variables: iterators and references into a group."""
    out = {}
    for n in f.walk():
        if n["k"] == "VarDecl" and "d" in n and X.kids(n):
            out[n["d"]] = X.kids(n)[0]
        elif n["k"] == "CXXForRangeStmt":
            vs = [x for x in f.walk(n) if x["k"] == "VarDecl"]
            rng = [c for c in n["c"] if c is not None]
            for v in vs[:1]:
                if "d" in v and rng:
                    out.setdefault(v["d"], rng[0])
        elif n["k"] == "BinaryOperator" and n.get("op") == "=":
            l = X.strip(X.kids(n)[0])
            if l["k"] == "DeclRefExpr" and l.get("st") == "local" and "d" in l:
                out.setdefault(("asg", l["d"]), X.kids(n)[1])
    return out


def mentions_group(f, n, g, depth=0, li=None):
    """Does expression n denote (part of) group this->g, directly or through a local iterator/reference?"""
    if X.mentions(n, lambda x: x["k"] == "MemberExpr" and x.get("n") == g and this_field(x, f) == g):
        return True
    if depth >= 3:
        return False
    li = local_inits(f) if li is None else li
    for x in f.walk(n):
        if x["k"] == "DeclRefExpr" and x.get("st") == "local":
            for k in (x.get("d"), ("asg", x.get("d"))):
                if k in li and li[k] is not n and mentions_group(f, li[k], g, depth + 1, li):
                    return True
    return False


def grad_param_writers(F):
    """callee mangled -> set of parameter indices whose `.grad` is written in the callee (atoms passed by reference
    to helpers such as coordnum::switching_function<flags>(..., A1, A2, ...))."""
    out = {}
    for f in F.funcs.values():
        if "/src/" not in f.file or not f.params:
            continue
        pidx = {p["d"]: i for i, p in enumerate(f.params)}
        for w, tgt in lvalue_writes(f):
            t = X.strip(tgt)
            if t["k"] == "MemberExpr" and t.get("q") == "colvarmodule::atom::grad" and X.kids(t):
                b = X.strip(X.kids(t)[0])
                if b["k"] == "DeclRefExpr" and b.get("d") in pidx:
                    out.setdefault(f.m, set()).add(pidx[b["d"]])
    return out


CONFIG_ATOM = re.compile(r"^this\.(is_enabled\(colvardeps::f_cvc_[a-z_]+\)|[a-z_0-9]+)$")


def config_facts(f, site, res):
    """Guard facts of a site restricted to configuration atoms: boolean data members of the component and
    is_enabled(f_cvc_*) -- value-dependent guards (x == 0.0 at a singular geometry) are not configuration."""
    facts, _ = C.guard_facts(f, site, res)
    out = set()
    for t in facts:
        if len(t) == 2 and t[0] in ("true", "false") and CONFIG_ATOM.match(X.re_strip(t[1])):
            k = X.re_strip(t[1])
            if k.startswith("this.is_enabled(") or "bool" in _field_type(f, k):
                out.add((t[0], k))
    return out


def _field_type(f, k):
    name = k.split(".", 1)[1]
    for n in f.walk():
        if n["k"] == "MemberExpr" and n.get("n") == name and this_field(n) == name:
            return f.type(n)
    return ""


def show(sets):
    return " | ".join(sorted({" & ".join(("" if p == "true" else "!") + k.replace("this.", "").replace("colvardeps::", "") for p, k in sorted(s)) or "always" for s in sets}))


def uncovered(rsets, gsets):
    """rsets / gsets: lists of conjunctions (sets of (polarity, atom)).  Returns None when every assignment of the
    atoms that satisfies some read conjunction satisfies some gradient conjunction, else a witness assignment."""
    import itertools
    atoms = sorted({k for s in rsets + gsets for _, k in s})
    if len(atoms) > 10:
        return "too many configuration atoms"
    for vals in itertools.product((True, False), repeat=len(atoms)):
        env = dict(zip(atoms, vals))
        sat = lambda s: all(env[k] == (p == "true") for p, k in s)
        if any(sat(s) for s in rsets) and not any(sat(s) for s in gsets):
            return {k.replace("this.", ""): v for k, v in env.items()}
    return None


def merge_conditions(sets):
    """Condition common to all the sites: atoms present with the same polarity at every site; an atom that appears
    with both polarities (pbc on / pbc off branches) is covered and dropped.  Returns (common, uncovered atoms)."""
    if not sets:
        return set(), set()
    common = set.intersection(*sets) if sets else set()
    uncovered = set()
    atoms = {k for s in sets for _, k in s}
    for a in atoms:
        pols = {p for s in sets for p, k in s if k == a}
        if ("true", a) in common or ("false", a) in common:
            continue
        everywhere = all(any(k == a for _, k in s) for s in sets)
        if not (everywhere and pols == {"true", "false"}):
            uncovered.add(a)
    return common, uncovered


# ------------------------------------------------------------------------------------------------ R1
def r1(F, rep):
    rep.rule("C01-R1", "every atom group read by a component's calc_value() receives the component's force: it is passed to "
                       "the atom-group force layer in the component's apply_force(), or its atomic gradients are set in "
                       "calc_value()/calc_gradients() and the force is applied through them (default cvc::apply_force or "
                       "apply_colvar_force); groups used only under a configuration flag get gradients under the same flag")
    exempt = load_table("c01_exempt.json").get("R1", {})
    gw = grad_param_writers(F)
    n_groups = 0
    for cls in sorted(F.subclasses(CVC, strict=True)):
        own_cv = [g for g in F.find_method(cls, "calc_value")]
        if not own_cv or own_cv[0].cls == CVC:
            continue
        cv = closure(F, cls, "calc_value")
        cgr = closure(F, cls, "calc_gradients")
        ap = F.find_method(cls, "apply_force")
        if not ap:
            raise AnalysisBroken("%s: no apply_force" % cls)
        apc = closure(F, cls, "apply_force")
        default_apply = ap[0].cls == CVC or any(c.get("cq") == "colvar::cvc::apply_force" for g in apc for c in X.calls(g))
        read = {}
        for g in cv:
            for name, nodes in group_fields_in(g).items():
                read.setdefault(name, []).extend((g, n) for n in nodes)
        for name in sorted(read):
            n_groups += 1
            key = "%s|%s" % (cls, name)
            if key in exempt:
                rep.add("C01-R1", key, read[name][0][0].loc(read[name][0][1]), "%s: group `%s` exempt: %s" % (cls, name, exempt[key]), True, func=cls)
                continue
            # (b) forced directly in apply_force
            direct, via_grad = [], []
            for g in apc:
                for c in X.calls(g):
                    if c["k"] != "CXXMemberCallExpr":
                        continue
                    r = X.receiver(c)
                    if r is None or not mentions_group(g, r, name):
                        continue
                    nm = X.callee_name(c)
                    if nm in ("apply_force", "get_group_force_object") and "atom_group" in c.get("cq", ""):
                        direct.append((g, c))
                    elif nm == "apply_colvar_force":
                        via_grad.append((g, c))
            # (a) gradient set on the group's atoms
            grads = []
            for g in cv + cgr:
                for c in X.calls(g):
                    if c["k"] == "CXXMemberCallExpr" and X.callee_name(c) == "set_weighted_gradient":
                        r = X.receiver(c)
                        if r is not None and mentions_group(g, r, name):
                            grads.append((g, c))
                    idxs = gw.get(c.get("callee"))
                    if idxs:
                        args = X.call_args(c)
                        for i in idxs:
                            if i < len(args) and mentions_group(g, args[i], name):
                                grads.append((g, c))
                for w, tgt in lvalue_writes(g):
                    t = X.strip(tgt)
                    if t["k"] == "MemberExpr" and t.get("q") == "colvarmodule::atom::grad" and mentions_group(g, t, name):
                        grads.append((g, w))
            uses_grad = default_apply or bool(via_grad)
            ok = bool(direct) or (uses_grad and bool(grads))
            how = ("forced in %s" % direct[0][0].q) if direct else (
                "gradients set at %d site(s), applied by %s" % (len(grads), "cvc::apply_force" if default_apply else via_grad[0][0].q)
                if ok else "NO force path: %d gradient site(s), default apply_force=%s, apply_colvar_force=%d" % (
                    len(grads), default_apply, len(via_grad)))
            g0, n0 = read[name][0]
            rep.add("C01-R1", key, g0.loc(n0), "%s reads group `%s` in calc_value(): %s" % (cls, name, how), ok,
                    detail="atoms the energy depends on would be left without their force", func=cls)
            # conditional groups: gradient condition must not be narrower than the read condition
            if ok and not direct and grads:
                rsets = [config_facts(g, n, X.const_locals(g)) for g, n in read[name] if g.name == "calc_value"]
                gsets = [config_facts(g, n, X.const_locals(g)) for g, n in grads]
                if rsets:
                    miss = uncovered(rsets, gsets)
                    rep.add("C01-R1", key + "|condition", grads[0][0].loc(grads[0][1]),
                            "%s: `%s` is read under %s and its gradients are set under %s" % (
                                cls, name, show(rsets), show(gsets)),
                            miss is None, detail="with %s the value depends on the group but its gradients are not set" % (miss,), func=cls)
    rep.count("component_groups", n_groups)


# ------------------------------------------------------------------------------------------------ R2
def product_factors(n, f, res, out=None):
    out = [] if out is None else out
    n = X.strip(n)
    if n["k"] == "DeclRefExpr" and res and n.get("d") in res:
        return product_factors(res[n["d"]], f, res, out)
    if n["k"] == "BinaryOperator" and n["op"] == "*":
        a, b = X.kids(n)
        product_factors(a, f, res, out)
        product_factors(b, f, res, out)
    elif n["k"] == "CXXOperatorCallExpr" and n.get("op") == "*" and len(X.call_args(n)) == 2:
        a, b = X.call_args(n)
        product_factors(a, f, res, out)
        product_factors(b, f, res, out)
    elif n["k"] in ("CXXConstructExpr", "CXXFunctionalCastExpr", "CXXTemporaryObjectExpr") and len([c for c in X.kids(n) if c["k"] != "CXXDefaultArgExpr"]) == 1:
        product_factors([c for c in X.kids(n) if c["k"] != "CXXDefaultArgExpr"][0], f, res, out)
    else:
        out.append(n)
    return out


def chain_rule_sites(F):
    """(f, power call node) for every integer_power/pow call whose exponent is `E.sup_np - 1`."""
    for f in F.funcs.values():
        if "/src/" not in f.file:
            continue
        for c in X.calls(f):
            if c["k"] != "CallExpr" or X.callee_name(c) not in ("integer_power", "pow"):
                continue
            a = X.call_args(c)
            if len(a) != 2:
                continue
            e = X.strip(a[1])
            if e["k"] == "BinaryOperator" and e["op"] == "-" and "sup_np" in X.key(X.kids(e)[0], f) and C._lit(X.kids(e)[1]) == 1:
                yield f, c


def r2(F, rep):
    rep.rule("C01-R2", "polynomial combination: at every site that applies d(c x^n) = c n x^(n-1), the product contains "
                       "E.sup_coeff, E.sup_np and power(E.value(), E.sup_np - 1) for the same component E; the value "
                       "sites use power(E.value(), E.sup_np) with E.sup_coeff; collect_cvc_values() and "
                       "communicate_forces() split into the same cases and skip disabled components alike")
    n = 0
    for f, c in chain_rule_sites(F):
        n += 1
        res = X.const_locals(f)
        base, expo = X.call_args(c)
        npk = X.re_strip(X.key(X.kids(X.strip(expo))[0], f))           # E.sup_np
        owner = npk[:-len("sup_np")]
        vk = X.re_strip(X.key(base, f))
        # enclosing product
        top = c
        for a in f.ancestors(c):
            if (a["k"] == "BinaryOperator" and a["op"] == "*") or (a["k"] == "CXXOperatorCallExpr" and a.get("op") == "*") or \
                    a["k"] in ("ImplicitCastExpr", "CXXConstructExpr", "CXXFunctionalCastExpr"):
                top = a
            else:
                break
        fk = [X.re_strip(X.key(x, f)) for x in product_factors(top, f, None)]
        has_c = (owner + "sup_coeff") in fk
        has_n = npk in fk
        val_ok = vk.startswith(owner.replace("this.", "this.") + "value()") or vk == owner + "value().real_value" or \
            vk == ("this.value().real_value" if owner == "this." else owner + "value().real_value")
        ok = has_c and has_n and val_ok
        rep.add("C01-R2", "chain|%s|%s" % (f.q, owner), f.loc(c),
                "%s: derivative of the monomial of `%s`: factors %s; coefficient %s, exponent factor %s, base %s" % (
                    f.q, owner.rstrip(".") or "this", fk, has_c, has_n, vk), ok,
                detail="the force on this component is not the derivative of its term in the variable", func=f.q)
    if n < 5:
        raise AnalysisBroken("only %d chain-rule sites (power(x, sup_np - 1)) found" % n)
    # value site in colvar::collect_cvc_values
    a = F.one("colvar::collect_cvc_values")
    b = F.one("colvar::communicate_forces")

    def chain(f):
        """Ordered conditions of the top-level if / else-if chain that contains the loops over cvcs."""
        out = []
        for s in f.walk():
            if s["k"] == "IfStmt":
                # topmost if whose condition mentions f_cv_scripted
                cs = s["c"]
                cond = cs[1] if len(cs) == 4 else cs[0]
                if "f_cv_scripted" in X.key(cond, f):
                    cur = s
                    while cur is not None and cur["k"] == "IfStmt":
                        cs = cur["c"]
                        cond = cs[1] if len(cs) == 4 else cs[0]
                        out.append((X.re_strip(X.key(cond, f)), cs[-2]))
                        els = cs[-1]
                        if els is not None and els["k"] != "IfStmt":
                            out.append(("else", els))
                        cur = els
                    break
        return out
    ca, cb = chain(a), chain(b)
    rep.add("C01-R2", "cases", a.loc(), "collect_cvc_values() splits on %s; communicate_forces() splits on %s" % (
        [k for k, _ in ca], [k for k, _ in cb]), [k for k, _ in ca] == [k for k, _ in cb] and len(ca) >= 3,
        detail="the value and the force of a variable would be combined from its components by different formulas", func=a.q)
    for (ka, ba), (kb, bb) in zip(ca, cb):
        if "f_cv_scripted" in ka:
            continue

        def terms(f, body):
            coeff, skip, power = False, False, None
            for x in f.walk(body):
                if x["k"] == "MemberExpr" and x.get("n") == "sup_coeff":
                    coeff = True
                if x["k"] == "ContinueStmt":
                    for cn, pol in __import__("cvverif.rules_c03", fromlist=["structural_guards"]).structural_guards(f, x):
                        if any(t[0] == "false" and "is_enabled(" in t[1] for t in C.facts(f, cn, pol)):
                            skip = True
                if x["k"] == "CallExpr" and X.callee_name(x) in ("integer_power", "pow"):
                    power = X.re_strip(X.key(X.call_args(x)[1], f))
            return coeff, skip, power
        ta, tb = terms(a, ba), terms(b, bb)
        ok = ta[0] and tb[0] and ta[1] and tb[1]
        if ta[2] is not None or tb[2] is not None:
            ok = ok and ta[2] is not None and tb[2] is not None and tb[2] == "(%s - 1)" % ta[2]
        rep.add("C01-R2", "case|%s" % ka, a.loc(ba), "case `%s`: value uses sup_coeff=%s power=%s skip-disabled=%s; force uses sup_coeff=%s power=%s skip-disabled=%s" % (
            ka, ta[0], ta[2], ta[1], tb[0], tb[2], tb[1]), ok,
            detail="a component contributes to the value but not (or differently) to the force", func=b.q)


# ------------------------------------------------------------------------------------------------ R3
def bias_loops(F, rep, rid):
    """update(), get_energy() and communicate_forces() of biases are called (serial and threaded loops alike) only in
    loops over biases_active().  Shared with C12-R8."""
    want = {"update": 0, "get_energy": 0, "communicate_forces": 0}
    for f in F.funcs.values():
        if "/src/" not in f.file:
            continue
        for c in X.calls(f):
            if c["k"] != "CXXMemberCallExpr" or c.get("cq") not in ("colvarbias::update", "colvarbias::get_energy", "colvarbias::communicate_forces"):
                continue
            r = X.receiver(c)
            if r is None or X.strip(r)["k"] == "CXXThisExpr" or f.cls and f.cls.startswith("colvarbias"):
                continue
            if f.q.startswith("colvarscript") or "script" in f.file or f.q.startswith("cvscript"):
                continue
            # enclosing loop and its range
            loop = None
            for a in f.ancestors(c):
                if a["k"] in ("ForStmt", "CXXForRangeStmt", "OMPParallelForDirective"):
                    loop = a
                    break
            nm = X.callee_name(c)
            rng = ""
            if loop is not None:
                hdr = [x for x in (loop["c"][:3] if loop["k"] == "ForStmt" else loop["c"][:-1]) if x is not None]
                rng = " ".join(X.re_strip(X.key(h, f)) for h in hdr)
            ok = "biases_active()" in rng and ".biases." not in rng and "this.biases" not in rng.replace("biases_active", "")
            want[nm] += 1
            rep.add(rid, "%s|%s" % (f.q, nm), f.loc(c), "%s: bias->%s() is called in a loop over %s" % (
                f.q, nm, "biases_active()" if ok else (rng[:120] or "NO LOOP")), ok,
                detail="energy and forces would be collected from different sets of biases", func=f.q)
    if min(want.values()) < 1:
        raise AnalysisBroken("bias loops not found: %s" % want)


def r3(F, rep):
    rep.rule("C01-R3", "energy and force come from the same set of biases: in colvarmodule::calc_biases(), "
                       "update_colvar_forces() and the SMP bias loops, update(), get_energy() and communicate_forces() "
                       "are called inside loops over biases_active(); total_bias_energy reaches proxy->add_energy() on "
                       "every path of update_colvar_forces(); colvarbias_restraint::update() sets energy and force of "
                       "variable i from restraint_potential(i) and restraint_force(i) in the same loop; "
                       "colvarbias::communicate_forces() hands every colvar_forces[i] to its variable")
    bias_loops(F, rep, "C01-R3")
    f = F.one("colvarmodule::update_colvar_forces")
    adds = [c for c in X.calls(f) if X.callee_name(c) == "add_energy" and X.call_args(c) and "total_bias_energy" in X.key(X.call_args(c)[0], f)]
    if not adds:
        rep.add("C01-R3", "add_energy", f.loc(), "update_colvar_forces() never passes total_bias_energy to add_energy()", False, func=f.q)
    for c in adds:
        rep.add("C01-R3", "add_energy", f.loc(c), "proxy->add_energy(total_bias_energy) is on every path of update_colvar_forces()",
                not f.cfg.real_guards(c),
                detail="forces would be applied whose energy is not reported", func=f.q)
    # energy summed where it was reset
    g = F.one("colvarmodule::calc_biases")
    sums = [w for w, t in lvalue_writes(g) if X.key(t, g) == "this.total_bias_energy"]
    rep.add("C01-R3", "energy-sum", g.loc(), "calc_biases() resets total_bias_energy and adds get_energy() of each active bias (%d writes)" % len(sums),
            len(sums) >= 2, func=g.q)
    # restraint: same loop
    u = F.one("colvarbias_restraint::update")
    pots = [c for c in X.calls(u) if X.callee_name(c) == "restraint_potential"]
    frcs = [c for c in X.calls(u) if X.callee_name(c) == "restraint_force"]
    same = False
    if pots and frcs:
        lp = [a for a in u.ancestors(pots[0]) if a["k"] == "ForStmt"]
        lf = [a for a in u.ancestors(frcs[0]) if a["k"] == "ForStmt"]
        same = bool(lp) and bool(lf) and lp[0] is lf[0] and X.key(X.call_args(pots[0])[0], u) == X.key(X.call_args(frcs[0])[0], u)
    rep.add("C01-R3", "restraint|same-loop", u.loc(), "colvarbias_restraint::update(): restraint_potential(i) and restraint_force(i) in one loop on the same i: %s" % same,
            same, func=u.q)
    # colvarbias::communicate_forces: both routes carry colvar_forces[i] with the same factors
    cf = F.one("colvarbias::communicate_forces")
    routes = [c for c in X.calls(cf) if X.callee_name(c) in ("add_bias_force", "add_bias_force_actual_value")]
    keys = {X.re_strip(X.key(X.call_args(c)[0], cf)) for c in routes}
    rep.add("C01-R3", "bias|routes", cf.loc(), "colvarbias::communicate_forces(): %d route(s) to the variable carry %s" % (len(routes), sorted(keys)),
            len(routes) == 2 and len(keys) == 1 and "colvar_forces" in list(keys)[0], func=cf.q)
    for c in routes:
        loop = [a for a in cf.ancestors(c) if a["k"] == "ForStmt"]
        ok = bool(loop) and "num_variables()" in X.key(loop[0]["c"][1], cf)
        facts, _ = C.guard_facts(cf, c)
        flags = {X.re_strip(t[1]) for t in facts if len(t) == 2 and t[0] in ("true", "false") and "is_enabled" in t[1]}
        ok = ok and all(("f_cvb_apply_force" in k or "f_cvb_bypass_ext_lagrangian" in k) for k in flags)
        rep.add("C01-R3", "bias|route|%s" % X.callee_name(c), cf.loc(c), "%s for every variable of the bias, under %s only" % (X.callee_name(c), sorted(flags)), ok, func=cf.q)


# ------------------------------------------------------------------------------------------------ R4
ROT = "colvarmodule::atom_group::rot"
FORCE_LAYER = ("colvarmodule::atom_group::apply_colvar_force", "colvarmodule::atom_group::group_force_object::apply_force_with_fitting_group",
               "colvarmodule::atom_group::calc_fit_forces_impl", "colvar::cvc::collect_gradients")


def dead_by_literal(f, site):
    """The site is guarded by a literal condition of the opposite value (`if (B_ag_rotate)` in an instantiation with
    B_ag_rotate = false): dead code in this instantiation."""
    for cid, pol in f.cfg.guards(site):
        c = X.strip(f.nodes[cid])
        if c["k"] == "CXXBoolLiteralExpr" and bool(c.get("v")) != pol:
            return True
    return False


def tmpl_bools(m):
    """Boolean template arguments encoded in a mangled name (…ILb1ELb0E…)."""
    return [x == "1" for x in re.findall(r"Lb([01])E", m.split("calc_fit_forces_impl", 1)[-1][:24])]


def fit_consumers(F, rep, rid, sites_of):
    """Every consumer of the fit term works under f_ag_fit_gradients and under no other feature: whether the group is
    fitted on itself or on a separate fitting group only selects WHICH group carries the term (a ?: or a local), it
    is not a condition for using it.  Shared with C20-R6 (reported atomic gradients)."""
    allowed = ("f_ag_center", "f_ag_rotate", "f_ag_fit_gradients", "f_ag_scalable", "b_dummy", "noforce")
    for q, pick in sites_of:
        f = F.one(q)
        sites = pick(f)
        if not sites:
            raise AnalysisBroken("%s: fit-gradient site not found" % q)
        for s in sites[:1]:
            facts, _ = C.guard_facts(f, s, X.const_locals(f))
            flags = [(t[0], X.re_strip(t[1])) for t in facts if len(t) == 2 and t[0] in ("true", "false")]
            has = any(p == "true" and "f_ag_fit_gradients" in k for p, k in flags)
            foreign = [k for p, k in flags if not any(a in k for a in allowed)]
            rep.add(rid, "fit|%s" % q.split("::")[-1], f.loc(s), "%s uses the fit term under %s" % (q, sorted(set(flags))),
                    has and not foreign, detail="fit term used although enableFitGradients is off, or withheld under an unrelated flag %s "
                                                "(a group fitted on itself also carries fit gradients)" % foreign, func=f.q)


def r4(F, rep):
    rep.rule("C01-R4", "in the force/gradient layer (apply_colvar_force, group_force_object, calc_fit_forces_impl, "
                       "cvc::collect_gradients) the group's rotation `rot` is applied to a force or gradient only where "
                       "f_ag_rotate is known to be enabled (the rotation does not exist otherwise); fit gradients/forces "
                       "are applied under f_ag_fit_gradients and under no flag other than f_ag_center / f_ag_rotate / "
                       "f_ag_fit_gradients (and the dummy / scalable / noforce exclusions)")
    n = 0
    seen_tmpl = set()
    for q in FORCE_LAYER:
        fs = F.func_q(q)
        if not fs:
            raise AnalysisBroken("force-layer function %s not found" % q)
        for f in fs:
            if not f.cfg.ok:
                continue
            res = X.const_locals(f)
            tb = tmpl_bools(f.m) if "calc_fit_forces_impl" in q else None
            if tb is not None:
                if tuple(tb[:2]) in seen_tmpl:
                    continue
                seen_tmpl.add(tuple(tb[:2]))
            sites = []
            for u in f.walk():
                if u["k"] == "MemberExpr" and u.get("q") == ROT:
                    # a use that only initialises a const local is checked at the uses of that local
                    vd = None
                    for a in f.ancestors(u):
                        if a["k"] == "VarDecl" and a.get("const") and a.get("st") == "local":
                            vd = a
                            break
                        if a["k"] in ("CompoundStmt", "IfStmt", "ForStmt"):
                            break
                    if vd is not None:
                        for x in f.walk():
                            if x["k"] == "DeclRefExpr" and x.get("d") == vd["d"]:
                                sites.append((x, "%s (from rot)" % vd.get("n", "local")))
                        # and the initialiser itself may be guarded by ?:
                        facts, _ = C.guard_facts(f, u, res)
                        if any(t[0] == "true" and "f_ag_rotate" in t[1] for t in facts):
                            sites = [s for s in sites if s[1] != "%s (from rot)" % vd.get("n", "local")]
                            sites.append((u, "rot"))
                    else:
                        sites.append((u, "rot"))
            for u, what in sites:
                if not f.cfg.is_reachable(u) or dead_by_literal(f, u):
                    continue
                facts, _ = C.guard_facts(f, u, res)
                ok = any(t[0] == "true" and "f_ag_rotate" in t[1] for t in facts)
                ctx = ""
                if not ok and tb is not None and len(tb) >= 2 and tb[1]:
                    ok, ctx = True, " (instantiated with B_ag_rotate = true)"
                n += 1
                rep.add("C01-R4", "rot|%s|%s|%s" % (q.split("::")[-1] + ("<%s>" % ",".join(str(b).lower() for b in tb[:2]) if tb else ""), what,
                                                     X.text(f.parent(u) or u, f)[:40]), f.loc(u),
                        "%s: use of %s is %s f_ag_rotate%s" % (f.q, what, "under" if ok else "NOT under", ctx), ok,
                        detail="for a group that is centred but not rotated the rotation is a null quaternion: forces are multiplied by a zero matrix",
                        func=f.q)
    # template instantiations are selected under the matching flags
    for q in ("colvarmodule::atom_group::calc_fit_forces", "colvarmodule::atom_group::calc_fit_gradients"):
        for f in F.func_q(q)[:1]:
            for c in X.calls(f):
                if X.callee_name(c) != "calc_fit_forces_impl":
                    continue
                tb = tmpl_bools(c.get("callee", ""))
                facts, _ = C.guard_facts(f, c)
                cen = [t[0] for t in facts if len(t) == 2 and t[0] in ("true", "false") and "f_ag_center" in t[1]]
                rot = [t[0] for t in facts if len(t) == 2 and t[0] in ("true", "false") and "f_ag_rotate" in t[1]]
                ok = len(tb) >= 2 and cen == [str(tb[0]).lower()] and rot == [str(tb[1]).lower()]
                n += 1
                rep.add("C01-R4", "select|%s|%s" % (q.split("::")[-1], ",".join(str(b).lower() for b in tb[:2])), f.loc(c),
                        "%s selects calc_fit_forces_impl<%s> under center=%s rotate=%s" % (q, ",".join(str(b).lower() for b in tb[:2]), cen, rot), ok,
                        detail="the fit term would be computed for the wrong combination of centring and rotation", func=f.q)
    if n < 10:
        raise AnalysisBroken("only %d rotation-use obligations in the force layer" % n)
    # fit gradients / fit forces applied under the right flags
    fit_consumers(F, rep, "C01-R4", (
        ("colvarmodule::atom_group::apply_colvar_force", lambda f: [x for x in f.walk() if x["k"] == "MemberExpr" and x.get("n") == "fit_gradients"]),
        ("colvarmodule::atom_group::group_force_object::apply_force_with_fitting_group", lambda f: [c for c in X.calls(f) if X.callee_name(c) == "calc_fit_forces"])))
    # calc_fit_gradients computes under the same flag
    f = F.one("colvarmodule::atom_group::calc_fit_gradients")
    impl = [c for c in X.calls(f) if X.callee_name(c) == "calc_fit_forces_impl"]
    ok = bool(impl) and all(any(t[0] == "true" and "f_ag_fit_gradients" in t[1] for t in C.guard_facts(f, c)[0]) for c in impl)
    rep.add("C01-R4", "fit|calc_fit_gradients", f.loc(), "calc_fit_gradients() computes the fit gradients exactly when f_ag_fit_gradients is enabled", ok, func=f.q)


# ------------------------------------------------------------------------------------------------ R5
def sub_containers(f, method, root=None):
    """{container field name: [call nodes]} for calls  this->C[i]->method(...) / (*it)->method(...)."""
    out = {}
    for c in X.calls(f, root):
        if c["k"] != "CXXMemberCallExpr" or X.callee_name(c) != method:
            continue
        r = X.receiver(c)
        if r is None:
            continue
        for x in f.walk(r):
            if x["k"] == "MemberExpr" and x.get("dk") == "Field" and this_field(x, f) and "vector" in f.type(x):
                out.setdefault(x["n"], []).append(c)
    return out


def r5(F, rep):
    rep.rule("C01-R5", "composite components (alpha, dihedralPC, linearCombination, customColvar, the *pathCV family, "
                       "neuralNetwork): every container of sub-components whose calc_value() is called from the "
                       "component's calc_value() has calc_gradients() called in calc_gradients() and apply_force() in "
                       "apply_force(); where the value adds K * sub->value(), apply_force() sends K * force and "
                       "collect_gradients() weights the sub-gradients with K (same canonical K)")
    n = 0
    for cls in sorted(F.subclasses(CVC, strict=True)):
        cv = closure(F, cls, "calc_value")
        own = F.find_method(cls, "calc_value")
        if not own or own[0].cls == CVC:
            continue
        conts = {}
        for g in cv:
            for k, v in sub_containers(g, "calc_value").items():
                conts.setdefault(k, []).extend((g, c) for c in v)
        if not conts:
            continue
        cgr = closure(F, cls, "calc_gradients")
        apc = closure(F, cls, "apply_force")
        for name in sorted(conts):
            n += 1
            gr = [g.q for g in cgr if name in sub_containers(g, "calc_gradients")]
            ap = [g.q for g in apc if name in sub_containers(g, "apply_force")]
            g0, c0 = conts[name][0]
            rep.add("C01-R5", "%s|%s" % (cls, name), g0.loc(c0), "%s evaluates sub-components `%s`: calc_gradients in %s, apply_force in %s" % (
                cls, name, gr or "NONE", ap or "NONE"), bool(gr) and bool(ap),
                detail="the sub-components enter the value but never receive a force", func=cls)
    if n < 5:
        raise AnalysisBroken("only %d sub-component containers found" % n)
    # linear coefficients: x += K * sub->value()   vs   sub->apply_force(K * force)   vs   coeff = cvc_coeff * K
    m = 0
    for cls in sorted(F.subclasses(CVC, strict=True)):
        own = F.find_method(cls, "calc_value")
        ap = F.find_method(cls, "apply_force")
        if not own or not ap or own[0].cls != cls or ap[0].cls != cls:
            continue
        fv, fa = own[0], ap[0]
        rv, ra = X.const_locals(fv), X.const_locals(fa)
        lin = {}
        for w, tgt in lvalue_writes(fv):
            if w["k"] not in ("CompoundAssignOperator", "CXXOperatorCallExpr") or w.get("op") != "+=":
                continue
            rhs = X.kids(w)[1] if w["k"] == "CompoundAssignOperator" else X.call_args(w)[1]
            fs = product_factors(rhs, fv, rv)
            subs = [x for x in fs if X.mentions(x, lambda y: y["k"] == "CXXMemberCallExpr" and X.callee_name(y) == "value" and
                                               X.receiver(y) is not None and X.strip(X.receiver(y))["k"] != "CXXThisExpr")]
            if len(subs) != 1:
                continue
            s = X.strip(subs[0])
            # linear only if the factor IS sub->value() (.real_value), not a function of it
            sk = X.re_strip(X.key(s, fv, rv))
            mcont = re.match(r"^this\.(\w+)\[.*\]\.value\(\)(\.real_value)?$", sk) or re.match(r"^op\[\]\(this\.(\w+), .*\)\.value\(\)(\.real_value)?$", sk)
            if not mcont:
                continue
            K = sorted(X.re_strip(X.key(x, fv, rv)) for x in fs if x is not subs[0])
            lin[mcont.group(1)] = (K, w)
        for cont, (K, w) in sorted(lin.items()):
            for c in X.calls(fa):
                if c["k"] == "CXXMemberCallExpr" and X.callee_name(c) == "apply_force" and X.receiver(c) is not None and \
                        X.mentions(X.receiver(c), lambda y: y["k"] == "MemberExpr" and y.get("n") == cont):
                    fs = product_factors(X.call_args(c)[0], fa, ra)
                    Kf = sorted(X.re_strip(X.key(x, fa, ra)) for x in fs if "force" not in X.re_strip(X.key(x, fa, ra)).split(".")[0])
                    m += 1
                    rep.add("C01-R5", "%s|%s|coeff|apply_force" % (cls, cont), fa.loc(c),
                            "%s: value adds %s * %s[i]->value(); apply_force sends %s * force" % (cls, " * ".join(K), cont, " * ".join(Kf) or "1"),
                            K == Kf, detail="the force on these sub-components is not the derivative of their term in the value", func=fa.q)
            for fc in F.find_method(cls, "collect_gradients"):
                if fc.cls != cls:
                    continue
                rc = X.const_locals(fc)
                if len(fc.params) < 2:
                    continue
                outd = fc.params[1]["d"]      # the array of collected atomic gradients
                done = False
                for w, t in lvalue_writes(fc):
                    if done or w.get("op") != "+=" or not X.mentions(t, lambda y: y["k"] == "DeclRefExpr" and y.get("d") == outd):
                        continue
                    inside = any(a["k"] == "ForStmt" and a["c"][1] is not None and cont in X.key(a["c"][1], fc) for a in fc.ancestors(w))
                    if not inside:
                        continue
                    rhs = X.kids(w)[1] if w["k"] == "CompoundAssignOperator" else X.call_args(w)[1]
                    fs = product_factors(rhs, fc, rc)
                    inits = {v["d"]: X.kids(v)[0] for v in fc.walk() if v["k"] == "VarDecl" and "d" in v and X.kids(v)}

                    def chain_factor(y):
                        """a local that holds this component's own chain-rule factor in the variable (sup_coeff * n * x^(n-1))"""
                        y = X.strip(y)
                        return y["k"] == "DeclRefExpr" and y.get("d") in inits and "sup_coeff" in X.key(inits[y["d"]], fc)
                    fs = [y for y in fs if not chain_factor(y)]
                    ks = [X.re_strip(X.key(y, fc, rc)) for y in fs]
                    # drop the atomic gradient itself and the chain-rule factor of this component in its variable
                    Kc = sorted(k for k in ks if ".grad" not in k and "sup_coeff" not in k and "sup_np" not in k)
                    m += 1
                    done = True
                    rep.add("C01-R5", "%s|%s|coeff|collect_gradients" % (cls, cont), fc.loc(w),
                            "%s: value adds %s * %s[i]->value(); collect_gradients weights the sub-gradients with %s" % (cls, " * ".join(K), cont, " * ".join(Kc) or "1"),
                            K == Kc, func=fc.q)
    if m < 2:
        raise AnalysisBroken("only %d linear-coefficient comparisons bound (alpha's hydrogen-bond term expected)" % m)


# ------------------------------------------------------------------------------------------------ R6
def r6(F, rep):
    rep.rule("C01-R6", "layering: colvarmodule::atom::apply_force() is called only from the atom-group layer "
                       "(atom_group::apply_colvar_force, group_force_object::add_atom_force / "
                       "apply_force_with_fitting_group and its lambdas): only that layer rotates the force back to the "
                       "laboratory frame and adds the forces on the fitting group")
    allowed = ("colvarmodule::atom_group::apply_colvar_force", "colvarmodule::atom_group::group_force_object::add_atom_force",
               "colvarmodule::atom_group::group_force_object::apply_force_with_fitting_group")
    n = 0
    for f in F.funcs.values():
        if "/src/" not in f.file:
            continue
        for c in X.calls(f):
            if c.get("cq") != "colvarmodule::atom::apply_force":
                continue
            n += 1
            host = f.q
            if f.is_lambda and f.lambda_in and f.lambda_in in F.funcs:
                host = F.funcs[f.lambda_in].q
            ok = host in allowed
            rep.add("C01-R6", "%s|%s" % (host, X.text(X.receiver(c), f)[:40] if X.receiver(c) is not None else "?"), f.loc(c),
                    "atom::apply_force() called from %s" % host, ok,
                    detail="a component that pushes forces on atoms itself ignores centerToReference / rotateToReference / fittingGroup of their group", func=f.q)
    if n < 5:
        raise AnalysisBroken("only %d calls of atom::apply_force found" % n)


# ------------------------------------------------------------------------------------------------ R7
def is_negation_of(f, a, b):
    """a == -b  (unary minus, or a product with the literal -1)."""
    a = X.strip(a)
    if a["k"] == "UnaryOperator" and a.get("op") == "-":
        return X.key(X.kids(a)[0], f) == X.key(b, f)
    if a["k"] == "CXXOperatorCallExpr" and a.get("op") == "-" and len(X.call_args(a)) == 1:
        return X.key(X.call_args(a)[0], f) == X.key(b, f)
    args = None
    if a["k"] == "BinaryOperator" and a.get("op") == "*":
        args = X.kids(a)
    elif a["k"] == "CXXOperatorCallExpr" and a.get("op") == "*" and len(X.call_args(a)) == 2:
        args = X.call_args(a)
    if args:
        for i in (0, 1):
            if C._lit(args[i]) in (-1, -1.0) and X.key(args[1 - i], f) == X.key(b, f):
                return True
    return False


def negation_diffs(f, a, b):
    """Number of places where tree b is tree a with an operand negated; None if they differ otherwise."""
    a, b = X.strip(a), X.strip(b)
    if X.key(a, f) == X.key(b, f):
        return 0
    if is_negation_of(f, a, b) or is_negation_of(f, b, a):
        return 1
    ka, kb = X.kids(a), X.kids(b)
    if a["k"] != b["k"] or a.get("op") != b.get("op") or a.get("cq") != b.get("cq") or len(ka) != len(kb) or not ka:
        return None
    total = 0
    for x, y in zip(ka, kb):
        d = negation_diffs(f, x, y)
        if d is None:
            return None
        total += d
    return total


def r7(F, rep):
    rep.rule("C01-R7", "a sign-conditional value needs a sign-conditional derivative: where a component's calc_value() assigns "
                       "its value in the two arms of a branch that differ only by negating one operand (x = q / x = -q; "
                       "acos(q0) / acos(-q0)), the function that produces its gradients or forces branches on the same "
                       "condition")
    n = 0
    for cls in sorted(F.subclasses(CVC, strict=True)):
        own = F.find_method(cls, "calc_value")
        if not own or own[0].cls != cls:
            continue
        f = own[0]
        for s in f.walk():
            if s["k"] != "IfStmt":
                continue
            cs = s["c"]
            if len(cs) == 4:
                cs = cs[1:]
            cond, then, els = cs[0], cs[1], cs[2] if len(cs) > 2 else None
            if cond is None or then is None or els is None:
                continue

            def single_assign(b):
                ws = [(w, t) for w, t in lvalue_writes(f) if any(a is b for a in f.ancestors(w)) or w is b]
                ws = [(w, t) for w, t in ws if w["k"] in ("BinaryOperator", "CXXOperatorCallExpr") and w.get("op") == "="]
                return ws[0] if len(ws) == 1 else None
            a, b = single_assign(then), single_assign(els)
            if a is None or b is None or X.key(a[1], f) != X.key(b[1], f) or not X.key(a[1], f).startswith("this.x"):
                continue
            ra = X.kids(a[0])[1] if a[0]["k"] == "BinaryOperator" else X.call_args(a[0])[1]
            rb = X.kids(b[0])[1] if b[0]["k"] == "BinaryOperator" else X.call_args(b[0])[1]
            if negation_diffs(f, ra, rb) != 1:
                continue
            n += 1
            ck = X.re_strip(X.key(cond, f))
            found = []
            for g in closure(F, cls, "calc_gradients") + closure(F, cls, "apply_force"):
                for x in g.walk():
                    c2 = None
                    if x["k"] == "IfStmt":
                        c2 = x["c"][1] if len(x["c"]) == 4 else x["c"][0]
                    elif x["k"] == "ConditionalOperator":
                        c2 = x["c"][0]
                    if c2 is not None and X.re_strip(X.key(c2, g)) == ck:
                        found.append(g.q)
            rep.add("C01-R7", "%s|%s" % (cls, ck[:60]), f.loc(s), "%s::calc_value() negates an operand of its value when `%s` is false; the same test appears in %s" % (
                cls, ck, sorted(set(found)) or "NO gradient/force function"), bool(found),
                detail="for the negated arm the derivative has the opposite sign: the applied force is +grad E", func=cls)
    if n < 2:
        raise AnalysisBroken("only %d sign-conditional values found (orientation, orientationAngle expected)" % n)


# ------------------------------------------------------------------------------------------------ R8
ATOM = "colvarmodule::atom"
GROUP = "colvarmodule::atom_group"


def r8(F, rep):
    rep.rule("C01-R8", "cached group totals follow the per-atom data: a function that refreshes a per-atom quantity from the "
                       "engine (a zero-argument colvarmodule::atom method assigning one of its fields from the proxy) "
                       "reaches, on every path to its exit, the atom_group method that recomputes the total summed from "
                       "that field; and a function that adjusts one such total incrementally adjusts all of them")
    # per-atom refreshers: atom::update_X() { X = proxy->get_atom_X(index); }
    refreshers = {}
    for f in F.funcs.values():
        if f.cls != ATOM or f.is_lambda:
            continue
        ws = [(w, t) for w, t in lvalue_writes(f) if X.key(t, f).startswith("this.")]
        if len(ws) != 1 or ws[0][0].get("op") != "=":
            continue
        rhs = X.strip(X.kids(ws[0][0])[1])
        if not any("colvarproxy" in (c.get("cq") or "") for c in X.calls(f)):
            continue
        if rhs["k"] not in ("CXXMemberCallExpr", "CallExpr"):
            continue
        refreshers[f.q] = X.strip(ws[0][1]).get("q")
    # recomputers: atom_group method with  total += atom->X
    recomputers = {}      # atom field q -> (function q, total field key)
    for f in F.funcs.values():
        if f.cls != GROUP or f.is_lambda:
            continue
        for w, t in lvalue_writes(f):
            if w.get("op") != "+=" or not X.key(t, f).startswith("this."):
                continue
            rhs = X.strip(X.kids(w)[1]) if w["k"] != "CXXOperatorCallExpr" else X.strip(X.call_args(w)[1])
            if rhs["k"] == "MemberExpr" and rhs.get("dk") == "Field" and rhs.get("q") in refreshers.values():
                # a recomputer resets the total before the loop and has no parameter
                if any(w2.get("op") == "=" and X.key(t2, f) == X.key(t, f) for w2, t2 in lvalue_writes(f)) and not f.params:
                    recomputers[rhs["q"]] = (f.q, X.key(t, f))
    if len(refreshers) < 2 or len(recomputers) < 2:
        raise AnalysisBroken("C01-R8: %d per-atom refreshers, %d total recomputers found (mass and charge expected)" % (len(refreshers), len(recomputers)))
    totals = sorted(k for _, k in recomputers.values())
    n = 0
    for f in F.funcs.values():
        if f.cls != GROUP:      # the atom constructors refresh a single atom that is not yet in any group
            continue
        for c in X.calls(f):
            fld = refreshers.get(c.get("cq"))
            if fld is None:
                continue
            n += 1
            rc = recomputers.get(fld)
            if rc is None:
                rep.add("C01-R8", "%s|%s" % (f.q, c.get("cq")), f.loc(c), "%s refreshes %s; no atom_group method recomputes a total from it" % (f.q, fld), True, func=f.q)
                continue
            after = [d for d in X.calls(f) if d.get("cq") == rc[0]]
            ok = bool(after) and not f.cfg.exits_from(c, avoiding=after)
            rep.add("C01-R8", "%s|%s" % (f.q, c.get("cq")), f.loc(c),
                    "%s refreshes %s of its atoms from the engine; every path to its exit then passes through %s()" % (f.q, fld.split("::")[-1], rc[0]), ok,
                    detail="%s keeps the sum of the old per-atom values: components that use it in their gradients (dipoleMagnitude, dipoleAngle: "
                           "q_j - m_j total_charge/total_mass) apply forces that are not the derivative of the value computed from the fresh per-atom data" % rc[1], func=f.q)
    if n < 2:
        raise AnalysisBroken("C01-R8: only %d calls of per-atom refreshers found" % n)
    # incremental writers agree
    m = 0
    recomp_funcs = {q for q, _ in recomputers.values()}
    for f in F.funcs.values():
        if f.cls != GROUP or f.q in recomp_funcs or f.is_lambda:
            continue
        written = {X.key(t, f) for w, t in lvalue_writes(f) if X.key(t, f) in totals}
        if not written:
            continue
        m += 1
        missing = [k for k in totals if k not in written]
        rep.add("C01-R8", "%s|totals" % f.q, f.loc(f.body) if getattr(f, "body", None) is not None else f.file, "%s writes %s of the cached totals %s" % (
            f.q, "all" if not missing else "only " + str(sorted(written)), totals), not missing,
            detail="missing: %s" % missing, func=f.q)
    if m < 2:
        raise AnalysisBroken("C01-R8: only %d incremental writers of the group totals found (add_atom, remove_atom expected)" % m)


# ------------------------------------------------------------------------------------------------ R9
def r9(F, rep):
    rep.rule("C01-R9", "a quadratic energy and its force share the prefactor: where a bias assigns its energy a product that "
                       "contains the same difference twice (E = c K D*D), every accumulation into a force in the same function "
                       "whose product contains an element of D also contains every non-literal factor K of the energy "
                       "(const locals resolved to their initialisers)")
    n = 0
    for f in F.funcs.values():
        if "/src/" not in f.file or f.body is None or not f.cls or not f.cls.startswith("colvarbias"):
            continue
        res = X.const_locals(f)
        for w, t in lvalue_writes(f):
            if X.key(t, f) != "this.bias_energy" or w.get("op") != "=":
                continue
            rhs = X.kids(w)[1] if w["k"] == "BinaryOperator" else X.call_args(w)[1]
            fk = [X.re_strip(X.key(x, f, res)) for x in product_factors(rhs, f, res)]
            rep_keys = [k for k in set(fk) if fk.count(k) >= 2 and C._lit_key(k) is None] if hasattr(C, "_lit_key") else [k for k in set(fk) if fk.count(k) >= 2]
            rep_keys = [k for k in rep_keys if not _is_number(k)]
            if len(rep_keys) != 1:
                continue
            D = rep_keys[0]
            K = sorted({k for k in fk if k != D and not _is_number(k)})
            if not K:
                continue
            sites = []
            for w2, t2 in lvalue_writes(f):
                if w2.get("op") != "+=" or w2 is w:
                    continue
                r2 = X.kids(w2)[1] if w2["k"] == "CompoundAssignOperator" else (X.call_args(w2)[1] if len(X.call_args(w2)) > 1 else None)
                if r2 is None:
                    continue
                f2 = [X.re_strip(X.key(x, f, res)) for x in product_factors(r2, f, res)]
                if any(k == D or k.startswith("op[](" + D) or k.startswith(D + "[") for k in f2):
                    sites.append((w2, f2))
            for w2, f2 in sites:
                n += 1
                missing = [k for k in K if k not in f2]
                rep.add("C01-R9", "%s|%s" % (f.q, X.re_strip(X.key(lvalue_writes_target(f, w2), f))[:40]), f.loc(w2),
                        "%s: the energy is a product of %s and `%s` squared; this force term contains %s" % (
                            f.q, K, D, "all of those factors" if not missing else "NOT " + str(missing)), not missing,
                        detail="the force would not be minus the derivative of the energy the bias reports", func=f.q)
    if n < 2:
        raise AnalysisBroken("C01-R9: only %d force terms next to a quadratic energy found (histogramRestraint expected)" % n)


def _is_number(k):
    try:
        float(k.strip("()").replace(" ", ""))
        return True
    except ValueError:
        return False


def lvalue_writes_target(f, w):
    for w2, t in lvalue_writes(f):
        if w2 is w:
            return t
    return w


# ------------------------------------------------------------------------------------------------ R10
def r10(F, rep):
    rep.rule("C01-R10", "fit gradients are switched off only where they vanish: a component that calls "
                        "disable(f_ag_fit_gradients) on a group it has rotated onto reference positions reads that group's "
                        "coordinates in calc_value() only inside the squared deviation from the reference, "
                        "(pos - ref_pos[..]).norm2(): that sum is what the fit minimises, so its derivative with respect to "
                        "the rotation is zero; any other function of the fitted coordinates (a projection on a vector) "
                        "depends on the rotation to first order and needs the fit term in its forces")
    n = 0
    for f in F.funcs.values():
        if "/src/" not in f.file or not f.cls or f.cls not in F.subclasses(CVC, strict=True):
            continue
        for c in X.calls(f):
            if X.callee_name(c) != "disable" or not X.call_args(c) or "f_ag_fit_gradients" not in X.key(X.call_args(c)[0], f):
                continue
            r = X.receiver(c)
            if r is None:
                continue
            gk = X.re_strip(X.key(r, f))
            n += 1
            own = F.find_method(f.cls, "calc_value")
            if not own:
                raise AnalysisBroken("C01-R10: %s::calc_value not found" % f.cls)
            bad = []
            for g in closure(F, f.cls, "calc_value"):
                for m in g.walk():
                    if m["k"] != "MemberExpr" or m.get("n") != "pos" or m.get("dk") != "Field":
                        continue
                    base = X.re_strip(X.key(m, g))
                    if gk.replace("op->(", "").rstrip(")") not in base and gk not in base:
                        continue
                    inside = False
                    for a in g.ancestors(m):
                        if a["k"] == "CXXMemberCallExpr" and X.callee_name(a) == "norm2" and X.receiver(a) is not None and "ref_pos" in X.key(X.receiver(a), g):
                            inside = True
                            break
                    if not inside:
                        bad.append("%s:%s" % (g.q, m.get("l")))
            rep.add("C01-R10", "%s|%s" % (f.cls, gk), f.loc(c), "%s switches off the fit gradients of `%s`; calc_value() uses its fitted coordinates %s" % (
                f.q, gk, "only inside (pos - ref_pos).norm2()" if not bad else "OUTSIDE a squared deviation at " + ", ".join(bad[:3])), not bad,
                detail="the rotation (and centring) of the fit depends on every atom: without the fit term the applied forces are not the derivative of the value", func=f.q)
    if n < 1:
        raise AnalysisBroken("C01-R10: no component switches off fit gradients (rmsd expected)")
    # a component that switches the rotational fit on by itself also switches the fit gradients on, unless it qualifies
    # for leaving them off (squared deviation only)
    m = 0
    for f in F.funcs.values():
        if "/src/" not in f.file or not f.cls or f.body is None:
            continue
        for c in X.calls(f):
            if X.callee_name(c) != "enable" or not X.call_args(c) or "f_ag_rotate" not in X.key(X.call_args(c)[0], f) or X.receiver(c) is None:
                continue
            if f.cls == "colvarmodule::atom_group":
                continue
            gk = X.key(X.receiver(c), f)
            m += 1
            on = [d for d in X.calls(f) if X.callee_name(d) == "enable" and X.call_args(d) and "f_ag_fit_gradients" in X.key(X.call_args(d)[0], f) and
                  X.receiver(d) is not None and X.key(X.receiver(d), f) == gk and f.cfg.can_reach(c, d)]
            off = [d for d in X.calls(f) if X.callee_name(d) == "disable" and X.call_args(d) and "f_ag_fit_gradients" in X.key(X.call_args(d)[0], f) and
                   X.receiver(d) is not None and X.key(X.receiver(d), f) == gk and f.cfg.can_reach(c, d)]
            ok = (bool(on) and not off) or bool(off)     # an explicit disable is judged by the obligation above
            rep.add("C01-R10", "%s|%s|rotate-on" % (f.q, X.re_strip(gk)), f.loc(c), "%s enables the rotational fit of `%s` itself and %s" % (
                f.q, X.re_strip(gk), "enables its fit gradients as well" if on and not off else "explicitly disables its fit gradients (see above)" if off else
                "NEITHER enables NOR disables its fit gradients: they stay off (atom_group only enables them for fits requested in its own block)"), ok,
                detail="the value depends on the optimal rotation; without the fit term the forces miss its derivative", func=f.q)
    if m < 3:
        raise AnalysisBroken("C01-R10: only %d components enabling the rotational fit themselves found" % m)


# ------------------------------------------------------------------------------------------------ R11
def _norm_locals(*keys):
    """rename local identifiers (name#id or bare loop names) by order of first appearance over the given strings."""
    import re as _re
    m = {}

    def sub(mo):
        w = mo.group(0)
        if w not in m:
            m[w] = "v%d" % len(m)
        return m[w]
    return tuple(_re.sub(r"\b[A-Za-z_][A-Za-z_0-9]*#\d+", sub, k) for k in keys)


def r11(F, rep):
    rep.rule("C01-R11", "element <-> coordinate map: a component that stores coordinate components of its atoms into the elements "
                        "of its vector value (x.vector1d_value[E] = atom.pos[K]) and hands the elements of the force back to "
                        "coordinate components (f[K'] = force.vector1d_value[E']) uses the same pair (E, K) in both, up to the "
                        "names of the loop variables")
    n = 0
    for cls in sorted(F.subclasses(CVC, strict=True)):
        cv = F.find_method(cls, "calc_value")
        af = F.find_method(cls, "apply_force")
        if not cv or not af or cv[0].cls != cls or af[0].cls != cls:
            continue
        f, g = cv[0], af[0]
        vmap = set()
        for w, t in lvalue_writes(f):
            t = X.strip(t)
            if w.get("op") != "=" or t["k"] != "CXXOperatorCallExpr" or t.get("op") != "[]" or "vector1d_value" not in X.key(X.call_args(t)[0], f):
                continue
            rhs = X.kids(w)[1] if w["k"] == "BinaryOperator" else X.call_args(w)[1]
            for m in f.walk(rhs):
                if m["k"] == "CXXOperatorCallExpr" and m.get("op") == "[]" and X.key(X.call_args(m)[0], f).endswith(".pos"):
                    vmap.add(_norm_locals(X.key(X.call_args(t)[1], f, X.const_locals(f)), X.key(X.call_args(m)[1], f, X.const_locals(f))))
        if not vmap:
            continue
        fmap = set()
        pd = g.params[0]["d"] if g.params else None
        for w, t in lvalue_writes(g):
            t = X.strip(t)
            if w.get("op") != "=" or t["k"] != "CXXOperatorCallExpr" or t.get("op") != "[]":
                continue
            rhs = X.strip(X.kids(w)[1] if w["k"] == "BinaryOperator" else X.call_args(w)[1])
            if rhs["k"] == "CXXOperatorCallExpr" and rhs.get("op") == "[]" and "vector1d_value" in X.key(X.call_args(rhs)[0], g) and \
                    X.mentions(X.call_args(rhs)[0], lambda y: y["k"] == "DeclRefExpr" and y.get("d") == pd):
                fmap.add(_norm_locals(X.key(X.call_args(rhs)[1], g, X.const_locals(g)), X.key(X.call_args(t)[1], g, X.const_locals(g))))
        n += 1
        ok = bool(fmap) and vmap == fmap
        rep.add("C01-R11", "%s|element-map" % cls, g.loc(), "%s: value elements <- coordinates %s; coordinates <- force elements %s" % (
            cls, sorted(vmap), sorted(fmap) or "NOT FOUND"), ok,
            detail="the energy depends on one coordinate while the force is applied to another", func=cls)
    if n < 1:
        raise AnalysisBroken("C01-R11: no component with an explicit element <-> coordinate map found (cartesian expected)")


def search_selectors(F):
    """(function, write, member key, loop) for every member of a component that is assigned the loop variable under a
    comparison inside a search loop (arg-min over candidates)."""
    def walk(n):
        yield n
        for c in X.kids(n):
            if c is not None:
                yield from walk(c)
    out = []
    for f in F.funcs.values():
        if "/src/" not in f.file or f.body is None or not f.cls or f.cls not in F.subclasses(CVC, strict=True):
            continue
        for w, t in lvalue_writes(f):
            ts = X.strip(t)
            if ts["k"] != "MemberExpr" or not X.key(ts, f).startswith("this.") or w.get("op") != "=" or w["k"] != "BinaryOperator":
                continue
            loops = [a for a in f.ancestors(w) if a["k"] == "ForStmt"]
            if not loops:
                continue
            L = loops[0]
            lv = set()
            if L["c"][0] is not None:
                for x in walk(L["c"][0]):
                    if x["k"] == "VarDecl":
                        lv.add(x.get("d"))
                    if x["k"] == "BinaryOperator" and x.get("op") == "=" and X.strip(X.kids(x)[0])["k"] == "DeclRefExpr":
                        lv.add(X.strip(X.kids(x)[0]).get("d"))
            r = X.strip(X.kids(w)[1])
            if not (r["k"] == "DeclRefExpr" and r.get("d") in lv):
                continue
            inl = {x["i"] for x in walk(L)}
            lc = L["c"][1]["i"] if L["c"][1] is not None else None
            if not [g for g in f.cfg.real_guards(w) if g[0] in inl and g[0] != lc]:
                continue
            out.append((f, w, X.key(ts, f), L))
    return out


# ------------------------------------------------------------------------------------------------ R12
def r12(F, rep):
    rep.rule("C01-R12", "the result of a search belongs to the step that made it: a member that a component assigns the loop "
                        "variable under a comparison inside a search loop (arg-min over reference permutations / frames), and "
                        "that its gradient or force code reads, is also assigned before that loop in the same function -- "
                        "otherwise, on a step where no candidate wins, the gradients are taken against the winner of an "
                        "earlier step while the value is the current one")

    n = 0
    for f, w, k, L in search_selectors(F):
        n += 1
        head = L["c"][1] if L["c"][1] is not None else L
        resets = [w2 for w2, t2 in lvalue_writes(f) if X.key(t2, f) == k and w2 is not w and f.cfg.dominates(w2, head)]
        rep.add("C01-R12", "%s|%s" % (f.q, X.re_strip(k)), f.loc(w), "%s selects `%s` inside a search loop; it is %s" % (
            f.q, X.re_strip(k), "assigned before the loop as well" if resets else "NOT reset before the loop: it keeps the winner of an earlier step"), bool(resets),
            detail="value and gradient refer to different references: the applied forces are not the derivative of the reported value", func=f.q)
    if n < 1:
        raise AnalysisBroken("C01-R12: no arg-min selection of a member inside a search loop found (rmsd atomPermutation expected)")


def r13(F, rep):
    rep.rule("C01-R13", "one sign convention on both sides of a value-type dispatch: where a component assigns the same target in "
                        "the branch for scalar values and in the branch for the other types (if (x.type() == type_scalar) ... "
                        "else ...), each local variable that occurs in one term of the right-hand side (linear normal form, "
                        "constant locals resolved) carries the same sign in both branches -- the derivative code that follows "
                        "is written once, for one convention (reference minus value, or value minus reference)")
    import re
    from .rules_c02 import nf
    n = 0
    for f in sorted(F.funcs.values(), key=lambda g: g.q):
        if "/src/" not in f.file or f.body is None or not f.cls or f.cls not in F.subclasses(CVC, strict=True):
            continue
        res = X.const_locals(f)
        locs = {d.get("n") for d in f.walk() if d["k"] == "VarDecl" and d.get("st") == "local" and d.get("n")}
        for st in f.walk():
            if st["k"] != "IfStmt" or len(st["c"]) < 3:
                continue
            cs = st["c"]
            cond, th, el = (cs[1], cs[2], cs[3]) if len(cs) == 4 else (cs[0], cs[1], cs[2])
            if cond is None or th is None or el is None or "type_scalar" not in X.key(cond, f):
                continue

            def assigns(branch):
                out = {}
                for w, t in lvalue_writes(f):
                    if w.get("op") != "=" or not any(y is w for y in f.walk(branch)):
                        continue
                    rhs = X.kids(w)[1] if w["k"] == "BinaryOperator" else (X.call_args(w)[1] if len(X.call_args(w)) > 1 else None)
                    if rhs is not None:
                        out.setdefault(X.re_strip(X.key(t, f)), (w, rhs))
                return out
            A, B = assigns(th), assigns(el)
            for tgt in sorted(set(A) & set(B)):
                def signs(rhs):
                    out = {}
                    for sg, key in nf(f, rhs, res):
                        for name in set(re.findall(r"[A-Za-z_]\w*", key)) & locs:
                            out.setdefault(name, set()).add(sg)
                    return {k: v for k, v in out.items() if len(v) == 1}
                sa, sb = signs(A[tgt][1]), signs(B[tgt][1])
                common = sorted(set(sa) & set(sb))
                if not common:
                    continue
                n += 1
                bad = [k for k in common if sa[k] != sb[k]]
                rep.add("C01-R13", "%s|%s" % (f.q, tgt), f.loc(B[tgt][0]), "%s: `%s` is assigned in both branches of the scalar/non-scalar dispatch; %s" % (
                    f.q, tgt, "every shared variable has the same sign in both" if not bad else "`%s` enters with opposite signs" % bad[0]), not bad,
                    detail="the value may only depend on the square of this quantity, but the gradient is proportional to it: forces on the "
                           "non-scalar components get the wrong sign while the reported energy is unchanged", func=f.q)
    if n < 2:
        raise AnalysisBroken("C01-R13: only %d targets assigned on both sides of a scalar/non-scalar dispatch found" % n)


def r14(F, rep):
    rep.rule("C01-R14", "value and derivative of a helper belong to the same evaluation: in a class with a parameterless compute() "
                        "and const accessors that return members, every such member that compute() writes at all is written on "
                        "every path that has written another one (no way from a write of A to the exit that avoids all writes "
                        "of B, unless B was already written) -- an `allocate once` test around one of them leaves the gradient of "
                        "the first evaluation next to the value of the current one")
    from .rules_c10 import member_root
    n = 0
    by = {}
    for f in F.funcs.values():
        if "/src/" in f.file and f.body is not None and f.cls:
            by.setdefault(f.cls, []).append(f)
    for cls, fs in sorted(by.items()):
        comp = [f for f in fs if f.name == "compute" and not f.params and f.cfg.ok]
        if not comp:
            continue
        visible = set()
        for g in fs:
            if g.const and g.name not in ("compute",) and g.body is not None:
                rets = [x for x in g.walk() if x["k"] == "ReturnStmt"]
                for r in rets:
                    for y in g.walk(r):
                        if y["k"] == "MemberExpr" and y.get("dk") == "Field" and X.kids(y) and X.strip(X.kids(y)[0])["k"] == "CXXThisExpr":
                            visible.add(y["q"])
        for f in comp:
            ws = {}
            for w, t in lvalue_writes(f):
                mr = member_root(t)
                if mr is not None and mr["q"] in visible:
                    ws.setdefault(mr["q"], []).append(w)
            if len(ws) < 2:
                continue
            for A in sorted(ws):
                for B in sorted(ws):
                    if A == B:
                        continue
                    n += 1
                    bad = [wa for wa in ws[A] if not any(f.cfg.dominates(wb, wa) for wb in ws[B]) and f.cfg.exits_from(wa, avoiding=ws[B])]
                    rep.add("C01-R14", "%s|%s|%s" % (f.q, A.split("::")[-1], B.split("::")[-1]), f.loc(bad[0]) if bad else f.loc(),
                            "%s: after `%s` is written, `%s` %s" % (f.q, A.split("::")[-1], B.split("::")[-1],
                                                                    "is written on every way to the exit" if not bad else "can stay as it was (a path to the exit avoids every write of it)"), not bad,
                            detail="the accessors then return a value of this evaluation and a derivative of an earlier one: the forces are not the "
                                   "gradient of the reported energy", func=f.q)
    if n < 2:
        raise AnalysisBroken("C01-R14: only %d (value, derivative) member pairs found in helper classes with compute()" % n)


def run(F, rep, tier):
    r14(F, rep)
    r13(F, rep)
    r12(F, rep)
    r11(F, rep)
    r10(F, rep)
    r9(F, rep)
    r1(F, rep)
    r2(F, rep)
    r3(F, rep)
    r4(F, rep)
    r5(F, rep)
    r6(F, rep)
    r7(F, rep)
    r8(F, rep)
