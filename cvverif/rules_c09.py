"""C09  Configuration parsing is total, strict and layout-independent.

R1  parse-then-check pairing: every configuration (sub-)string that is looked up through a
    colvarparse object is passed to check_keywords() on that same object
R2  registry integrity: allowed_keywords is appended only by add_keyword; every get_keyval
    overload funnels into key_lookup, which registers the keyword before any early return
R3  case-insensitivity on both sides (to_lower_cppstr in add_keyword, key_lookup, check_keywords)
R4  CRLF: configuration/state text lines are read through colvarmodule::getline
R5  typed extraction failures raise
R7  keywords looked up in a text that is not keyword-checked are removed from the registry before the function returns
R8  every rejection of a configuration stage clears the module-level parser
R6  end-of-text tests of the scanners are satisfiable: a cursor that is only ever set to positions inside the text it
    scans or to the size of that text is compared with that size by an operator that holds at equality
"""
from . import expr as X
from . import cond as C
from . import callgraph
from .facts import AnalysisBroken
from .common import load_table

PARSE_PRIMS = ("key_lookup", "get_keyval", "get_keyval_feature", "_get_keyval_scalar_", "_get_keyval_vector_",
               "get_key_string_value", "get_key_string_multi_value", "_get_keyval_scalar_novalue_")
CHECK_PRIM = "check_keywords"


def is_string_type(t):
    return "basic_string" in t


class R1:
    def __init__(self, F, rep):
        self.F, self.rep = F, rep
        self.cg = callgraph.get(F)
        self.parse_uses = {}   # mangled -> set((param idx, via))
        self.check_uses = {}
        self._sf = {}
        self._al = {}

    def param_index(self, f, node):
        n = X.strip(node)
        if n["k"] == "DeclRefExpr" and n.get("st") == "param":
            for i, p in enumerate(f.params):
                if p["d"] == n.get("d"):
                    return i
        return None

    def recv_key(self, f, call):
        if call["k"] == "CXXMemberCallExpr":
            r = X.receiver(call)
            if r is None:
                return "this"
            pi = self.param_index(f, r)
            if pi is not None:
                return "<param:%d>" % pi
            return X.key(r, f)
        if call["k"] in ("CXXConstructExpr", "CXXTemporaryObjectExpr"):
            return "<new>"
        return "<static>"

    def translate(self, via, q, f=None, args=None):
        """Registry object `via` (in the callee's frame) seen from the caller, where q is
        the caller-side receiver key and args the caller-side arguments."""
        if via.startswith("<param:"):
            i = int(via[7:-1])
            if f is not None and args is not None and i < len(args):
                a = X.strip(args[i])
                if a["k"] == "CXXThisExpr":
                    return "this"
                pi = self.param_index(f, a)
                if pi is not None:
                    return "<param:%d>" % pi
                return X.key(a, f)
            return "<unknown>"
        if via == "this":
            return q
        if via.startswith("this."):
            return q + via[4:] if q != "this" else via
        return via

    def summaries(self):
        F = self.F
        direct_p, direct_c = {}, {}
        cands = []
        for f in F.funcs.values():
            if not any(is_string_type(f.typestr(p["t"])) for p in f.params):
                continue
            cands.append(f)
            pu, cu = set(), set()
            for c in X.calls(f):
                nm = X.callee_name(c)
                if c["k"] != "CXXMemberCallExpr" or not c.get("cq", "").startswith("colvarparse::"):
                    continue
                args = X.call_args(c)
                if not args:
                    continue
                pi = self.param_index(f, args[0])
                if pi is None:
                    continue
                via = self.recv_key(f, c)
                if nm in PARSE_PRIMS:
                    pu.add((pi, via))
                elif nm == CHECK_PRIM:
                    cu.add((pi, via))
            self.parse_uses[f.m] = pu
            self.check_uses[f.m] = cu
        changed = True
        rounds = 0
        while changed and rounds < 12:
            changed = False
            rounds += 1
            for f in cands:
                for c in X.calls(f):
                    args = X.call_args(c)
                    if not args:
                        continue
                    q = self.recv_key(f, c)
                    for tgt in self.cg.targets(c):
                        for table in (self.parse_uses, self.check_uses):
                            for (j, via) in list(table.get(tgt, ())):
                                if j >= len(args):
                                    continue
                                pi = self.param_index(f, args[j])
                                if pi is None:
                                    continue
                                item = (pi, self.translate(via, q, f, args))
                                if item not in table[f.m]:
                                    table[f.m].add(item)
                                    changed = True

    def run(self):
        F, rep = self.F, self.rep
        rep.rule("C09-R1", "every configuration (sub-)string looked up through a colvarparse object reaches "
                           "check_keywords() on that same object on every non-error path (callee self-checks, or the "
                           "caller checks after the parse call)")
        self.summaries()
        n_orig = 0
        results = {}
        for f in F.funcs.values():
            if "/src/" not in f.file or not f.cfg.ok:
                continue
            res = None
            for c in X.calls(f):
                args = X.call_args(c)
                if not args:
                    continue
                q = self.recv_key(f, c)
                tgts = self.cg.targets(c)
                needs = {}   # (j) -> set of registry objects needing a check
                for tgt in tgts:
                    pu = self.parse_uses.get(tgt, ())
                    cu = self.check_uses.get(tgt, ())
                    for (j, via) in pu:
                        if j >= len(args):
                            continue
                        if self.param_index(f, args[j]) is not None:
                            continue   # delegation of f's own parameter: handled by the summaries
                        a = X.strip(args[j])
                        if not is_string_type(f.type(a)):
                            continue
                        if a["k"] != "DeclRefExpr":
                            continue
                        if (j, via) in cu:
                            needs.setdefault(j, set())
                            continue
                        needs.setdefault(j, set()).add(self.translate(via, q, f, args))
                for j, objs in needs.items():
                    skey = X.key(args[j], f)
                    if skey in self.stream_filled(f):
                        rep.count("state_block_strings_skipped")
                        continue
                    n_orig += 1
                    key = "%s|%s|%s" % (f.q, X.re_strip(skey), (c.get("cq") or "?"))
                    if not objs:
                        results.setdefault(key, (True, f.loc(c), "sub-block `%s` passed to %s, which checks its own keywords" % (
                            X.re_strip(skey), c.get("cq")), "", f.q))
                        continue
                    if res is None:
                        res = X.const_locals(f)
                    ok_all, why = True, []
                    for obj in sorted(objs):
                        if obj in ("<new>", "<static>"):
                            ok_all = False
                            why.append("object constructed from the string never checks it")
                            continue
                        sites = self.check_sites(f, obj, skey)
                        if not sites:
                            ok_all = False
                            why.append("no check_keywords(%s) on `%s` in %s" % (X.re_strip(skey), X.re_strip(obj), f.q))
                            continue
                        if self.leaks(f, c, sites, res):
                            ok_all = False
                            why.append("a non-error path from the parse call to the exit avoids check_keywords on `%s`" % X.re_strip(obj))
                        else:
                            why.append("checked on `%s` at line %s" % (X.re_strip(obj), ",".join(str(s.get("l")) for s in sites)))
                    prev = results.get(key)
                    if prev is None or (prev[0] and not ok_all):
                        results[key] = (ok_all, f.loc(c),
                                        "sub-block `%s` parsed by %s: %s" % (X.re_strip(skey), c.get("cq"), "; ".join(why)),
                                        "a misspelt keyword in this block would be silently ignored", f.q)
        # anchor: the module-level entry point checks what it parses
        for f in F.need("colvarmodule::parse_config"):
            need = self.parse_uses.get(f.m, set()) - self.check_uses.get(f.m, set())
            results["colvarmodule::parse_config|self-check"] = (
                not need and bool(self.parse_uses.get(f.m)), f.loc(),
                "module configuration is parsed through %s and %s" % (
                    sorted(self.parse_uses.get(f.m, ())), "checked on the same object" if not need else "NOT checked: %s" % sorted(need)),
                "", f.q)
        for key, (ok, loc, what, detail, fq) in results.items():
            rep.add("C09-R1", key, loc, what, ok, detail=detail, func=fq)
        rep.count("parse_origin_sites", n_orig)
        rep.count("functions_parsing_a_parameter", sum(1 for v in self.parse_uses.values() if v))

    def stream_filled(self, f):
        """Keys of local strings filled by stream extraction (state-file blocks, not
        configuration): `is >> s`, `is >> read_block(key, &s)`."""
        c = self._sf.get(f.m)
        if c is not None:
            return c
        out = set()
        for n in f.walk():
            if n["k"] == "CXXOperatorCallExpr" and n.get("op") == ">>":
                a = X.call_args(n)
                if len(a) == 2:
                    out.add(X.key(a[1], f))
            if n["k"] in ("CXXConstructExpr", "CXXTemporaryObjectExpr") and n.get("rc", "").endswith("read_block"):
                for a in X.call_args(n):
                    a = X.strip(a)
                    if a["k"] == "UnaryOperator" and a["op"] == "&":
                        out.add(X.key(X.kids(a)[0], f))
        self._sf[f.m] = out
        return out

    def aliases(self, f):
        """local string copies: `std::string y(x)` makes key(y) an alias of key(x)."""
        c = self._al.get(f.m)
        if c is not None:
            return c
        out = {}
        for n in f.walk():
            if n["k"] == "VarDecl" and n.get("st") == "local" and is_string_type(f.typestr(n.get("t"))):
                cs = X.kids(n)
                if len(cs) == 1:
                    src = X.strip(cs[0])
                    if src["k"] in ("CXXConstructExpr",) and len(X.call_args(src)) == 1:
                        src = X.strip(X.call_args(src)[0])
                    if src["k"] == "DeclRefExpr" and src.get("st") in ("local", "param"):
                        out["%s#%s" % (n["n"], n["d"])] = X.key(src, f)
        self._al[f.m] = out
        return out

    def check_sites(self, f, obj, skey):
        al = self.aliases(f)
        out = []
        for c in X.calls(f):
            args = X.call_args(c)
            if not args:
                continue
            q = self.recv_key(f, c)
            for tgt in self.cg.targets(c):
                if X.callee_name(c) == CHECK_PRIM and c.get("cq", "").startswith("colvarparse::"):
                    if q == obj and (X.key(args[0], f) == skey or al.get(X.key(args[0], f)) == skey):
                        out.append(c)
                    continue
                for (j, via) in self.check_uses.get(tgt, ()):
                    if j < len(args) and (X.key(args[j], f) == skey or al.get(X.key(args[j], f)) == skey) and self.translate(via, q, f, args) == obj:
                        out.append(c)
        return out

    def leaks(self, f, origin, sites, res):
        """Is there a feasible non-error path from origin to the exit that avoids all check sites?"""
        known = set()
        ko = X.key(origin, f, res)
        known |= {("z", ko), ("false", ko), ("nonpos", ko)}
        par = f.parent(origin)
        # result stored: `int ec = call`, `ec |= call`, `ec = call`
        p = par
        while p is not None and p["k"] in ("ImplicitCastExpr", "ExprWithCleanups"):
            p = f.parent(p)
        if p is not None and p["k"] == "VarDecl":
            kv = "%s#%s" % (p["n"], p["d"])
            known |= {("z", kv), ("false", kv)}
        if p is not None and p["k"] in ("BinaryOperator", "CompoundAssignOperator") and p["op"] in ("|=", "="):
            kv = X.key(X.kids(p)[0], f, res)
            known |= {("z", kv), ("false", kv)}
        known |= {("z", "colvarmodule::get_error()"), ("false", "colvarmodule::get_error()")}
        avoid_blocks = {}
        for s in sites:
            pos = f.cfg.block_of(s)
            if pos:
                avoid_blocks[pos[0]] = min(avoid_blocks.get(pos[0], 1 << 30), pos[1])
        po = f.cfg.block_of(origin)
        if po is None:
            return True
        if po[0] in avoid_blocks and avoid_blocks[po[0]] > po[1]:
            return False
        seen = set()
        stack = [(po[0], True)]
        while stack:
            blk, first = stack.pop()
            if not first:
                if blk in seen:
                    continue
                seen.add(blk)
                if blk in avoid_blocks:
                    continue
                if blk == f.cfg.exit:
                    return True
            b = f.cfg.blocks[blk]
            for i, s in enumerate(b["s"]):
                if s is None:
                    continue
                if b.get("cond") is not None and len(b["s"]) == 2 and b.get("tk") not in ("SwitchStmt", "CXXTryStmt"):
                    ef = C.facts(f, f.nodes[b["cond"]], i == 0, res)
                    if C.contradicts(ef, known):
                        continue
                    # returning an error constant / after cvm::error is an error path: handled below
                stack.append((s, False))
        return False


def r2(F, rep):
    rep.rule("C09-R2", "keyword registry integrity: allowed_keywords grows only in add_keyword, key_lookup registers the "
                       "keyword before any return, and every get_keyval/get_keyval_feature overload reaches key_lookup")
    cg = callgraph.get(F)
    from .rules_c10 import lvalue_writes, member_root
    # (a) who writes allowed_keywords
    writers = {}
    for f in F.funcs.values():
        for w, tgt in lvalue_writes(f):
            t = X.strip(tgt)
            if t["k"] == "MemberExpr" and t.get("q") == "colvarparse::allowed_keywords":
                kind = X.callee_name(w) if w["k"] == "CXXMemberCallExpr" else w["k"]
                if kind in ("begin", "end", "cbegin", "cend", "size", "empty", "front", "back", "find", "count"):
                    continue   # non-const accessors that do not change the container
                writers.setdefault(f.q, set()).add(kind)
    if not writers:
        raise AnalysisBroken("no writer of colvarparse::allowed_keywords found")
    allowed = {"colvarparse::add_keyword": {"push_back"}, "colvarparse::clear_keyword_registry": {"clear"}}
    for q, kinds in sorted(writers.items()):
        ok = q in allowed and kinds <= allowed[q]
        rep.add("C09-R2", "writer|%s" % q, F.by_q[q][0].loc(), "%s writes allowed_keywords via %s" % (q, sorted(kinds)),
                ok, detail="only add_keyword may add and only clear_keyword_registry may clear the registry", func=q)
    # (b) key_lookup registers first
    kl = F.one("colvarparse::key_lookup")
    adds = [c for c in X.calls(kl) if c.get("cq") == "colvarparse::add_keyword"]
    rets = [n for n in kl.walk() if n["k"] == "ReturnStmt"]
    ok = bool(adds) and all(any(kl.cfg.dominates(a, r) for a in adds) for r in rets)
    rep.add("C09-R2", "key_lookup|registers-first", kl.loc(), "add_keyword() dominates all %d returns of key_lookup" % len(rets),
            ok, detail="a keyword looked up but not registered would be reported as unknown by check_keywords, or "
                       "(if registration were conditional on success) a misspelling would go unnoticed", func=kl.q)
    # (c) every public lookup funnels into key_lookup
    n = 0
    for f in F.funcs.values():
        if f.cls == "colvarparse" and f.name in ("get_keyval", "_get_keyval_scalar_", "_get_keyval_vector_",
                                                 "get_key_string_value", "get_key_string_multi_value"):
            n += 1
            ok = cg.reaches(f.m, lambda m, g: g is not None and g.q == "colvarparse::key_lookup")
            rep.add("C09-R2", "funnel|%s" % f.m, f.loc(), "%s %s key_lookup" % (f.q, "reaches" if ok else "does NOT reach"), ok, func=f.q)
    for f in F.func_q("colvardeps::get_keyval_feature"):
        ok = cg.reaches(f.m, lambda m, g: g is not None and g.q == "colvarparse::key_lookup")
        rep.add("C09-R2", "funnel|%s" % f.m, f.loc(), "%s %s key_lookup" % (f.q, "reaches" if ok else "does NOT reach"), ok, func=f.q)
    rep.count("get_keyval_overloads", n)


def lowered(f, n, depth=0):
    """Is expression n (a local or expression) the result of to_lower_cppstr, following
    local initialisers and the last assignment?"""
    n = X.strip(n)
    if depth > 4:
        return False
    if n["k"] in ("CallExpr", "CXXMemberCallExpr") and X.callee_name(n) == "to_lower_cppstr":
        return True
    if n["k"] in ("CXXConstructExpr", "CXXTemporaryObjectExpr") and len(X.call_args(n)) == 1:
        return lowered(f, X.call_args(n)[0], depth + 1)
    if n["k"] == "DeclRefExpr" and n.get("st") == "local":
        defs = []
        for x in f.walk():
            if x["k"] == "VarDecl" and x.get("d") == n["d"] and X.kids(x):
                defs.append(X.kids(x)[0])
            elif x["k"] == "CXXOperatorCallExpr" and x.get("op") == "=":
                a = X.call_args(x)
                t = X.strip(a[0])
                if t["k"] == "DeclRefExpr" and t.get("d") == n["d"]:
                    defs.append(a[1])
        # at least one definition lowers it and every non-lowering definition is an extraction target
        return any(lowered(f, d, depth + 1) for d in defs)
    return False


def r3(F, rep):
    rep.rule("C09-R3", "keywords are compared case-insensitively on both sides: add_keyword stores, key_lookup searches "
                       "and check_keywords compares only strings produced by to_lower_cppstr")
    ak = F.one("colvarparse::add_keyword")
    for c in X.calls(ak):
        if c["k"] == "CXXMemberCallExpr" and X.callee_name(c) == "push_back":
            ok = lowered(ak, X.call_args(c)[0])
            rep.add("C09-R3", "add_keyword|stored", ak.loc(c), "registered keyword is %slower-cased" % ("" if ok else "NOT "), ok, func=ak.q)
    kl = F.one("colvarparse::key_lookup")
    finds = [c for c in X.calls(kl) if c["k"] == "CXXMemberCallExpr" and X.callee_name(c) == "find"
             and "basic_string" in c.get("rc", "")]
    if not finds:
        raise AnalysisBroken("key_lookup: no std::string::find call")
    for i, c in enumerate(finds):
        r = X.receiver(c)
        a = X.call_args(c)[0]
        if not is_string_type(kl.type(X.strip(a))):
            continue
        if not (lowered(kl, r) or lowered(kl, a)):
            continue   # a search in the value text, not the keyword search
        ok = lowered(kl, r) and lowered(kl, a)
        rep.add("C09-R3", "key_lookup|find|%s.find(%s)" % (X.text(r, kl), X.text(a, kl)), kl.loc(c),
                "search of `%s` in `%s`: both %slower-cased" % (X.text(a, kl), X.text(r, kl), "" if ok else "NOT "), ok, func=kl.q)
    ck = F.one("colvarparse::check_keywords")
    # the comparison inside the loop over the registry; its loop variable is the registry side
    cmps, loopvars = [], set()
    for c in ck.walk():
        if c["k"] == "CXXOperatorCallExpr" and c.get("op") == "==":
            for a in ck.ancestors(c):
                if a["k"] == "ForStmt" and a["c"][0] is not None and X.mentions(a["c"][0], lambda x: x["k"] == "MemberExpr" and x.get("n") == "allowed_keywords"):
                    cmps.append(c)
                    loopvars |= {v["d"] for v in ck.walk(a["c"][0]) if v["k"] == "VarDecl"}
                    break
    if not cmps:
        raise AnalysisBroken("check_keywords: comparison against the registry not found")
    for c in cmps:
        cand = [a for a in X.call_args(c) if not X.mentions(a, lambda x: x["k"] == "DeclRefExpr" and x.get("d") in loopvars)]
        ok = bool(cand) and lowered(ck, cand[0])
        # the lowering assignment must precede the comparison
        rep.add("C09-R3", "check_keywords|compare", ck.loc(c), "candidate keyword is %slower-cased before comparison with the registry" % (
            "" if ok else "NOT "), ok, func=ck.q)


def r4(F, rep):
    rep.rule("C09-R4", "std::getline is called only by colvarmodule::getline (CR stripping) or by the listed data-file readers")
    exempt = {e["function"]: e["reason"] for e in load_table("c09_exempt.json")["R4_getline"]}
    n = 0
    seen = set()
    for f in F.funcs.values():
        if "/src/" not in f.file:
            continue
        for c in X.calls(f):
            if c.get("cq") in ("std::getline", "getline") and c["k"] == "CallExpr":
                n += 1
                if f.q in seen:
                    continue
                seen.add(f.q)
                if f.q == "colvarmodule::getline":
                    rep.add("C09-R4", "getline|%s" % f.q, f.loc(c), "the CRLF-aware wrapper itself", True, func=f.q)
                elif f.q in exempt:
                    rep.add("C09-R4", "getline|%s" % f.q, f.loc(c), "exempt: " + exempt[f.q], True, func=f.q)
                else:
                    rep.add("C09-R4", "getline|%s" % f.q, f.loc(c),
                            "raw std::getline outside colvarmodule::getline: a CRLF configuration/state line keeps its \\r", False,
                            detail="LF and CRLF layouts would then define different models", func=f.q)
    # the wrappers used by the parser go through cvm::getline
    for q in ("colvarparse::getline_nocomments", "colvarparse::read_config_line", "colvarparse::check_keywords"):
        f = F.one(q)
        ok = any(c.get("cq") == "colvarmodule::getline" for c in X.calls(f))
        rep.add("C09-R4", "uses-wrapper|%s" % q, f.loc(), "%s reads lines through colvarmodule::getline" % q, ok, func=q)
    w = F.one("colvarmodule::getline")
    strips = any(n2["k"] == "CharacterLiteral" and n2.get("v") == 13 for n2 in w.walk())
    rep.add("C09-R4", "wrapper|strips-cr", w.loc(), "colvarmodule::getline tests for '\\r'", strips, func=w.q)
    rep.count("getline_call_sites", n)


def r5(F, rep):
    rep.rule("C09-R5", "typed extraction failures raise: every _get_keyval_scalar_value_ body has a guarded error return, "
                       "the generic no-value case always raises, vector elements that fail to parse raise, and "
                       "parse_config checks braces before parsing anything")
    from .rules_c10 import is_error_call
    n = 0
    for f in F.funcs.values():
        if f.cls != "colvarparse":
            continue
        if f.name == "_get_keyval_scalar_value_":
            n += 1
            errs = [c for c in f.walk() if is_error_call(c)]
            ok = any(f.cfg.guards(e) for e in errs)
            rep.add("C09-R5", "scalar_value|%s" % f.m, f.loc(), "%s has %d error call(s), %s" % (
                f.q, len(errs), "guarded by a failure condition" if ok else "none on a failure branch"), ok, func=f.q)
        elif f.name == "_get_keyval_scalar_novalue_":
            n += 1
            is_bool = f.params and "bool" in f.typestr(f.params[1]["t"])
            errs = [c for c in f.walk() if is_error_call(c)]
            if is_bool:
                rep.add("C09-R5", "novalue|%s" % f.m, f.loc(), "boolean shorthand: keyword without value means on", not errs, func=f.q)
            else:
                ok = bool(errs) and not f.cfg.exits_from(f.body, avoiding=errs) if f.cfg.ok else False
                # every path to the exit passes an error call
                ok = bool(errs) and all(not f.cfg.guards(e) for e in errs)
                rep.add("C09-R5", "novalue|%s" % f.m, f.loc(), "keyword without a value for a non-boolean type always raises", ok, func=f.q)
        elif f.name == "_get_keyval_vector_":
            n += 1
            res = X.const_locals(f)
            found = False
            for e in f.walk():
                if not is_error_call(e):
                    continue
                fs, gs = C.guard_facts(f, e, res)
                if any(t[0] in ("false", "z") and "op>>(" in t[1] for t in fs):
                    found = True
            rep.add("C09-R5", "vector|%s" % f.m, f.loc(), "failed element extraction %s" % (
                "raises" if found else "does NOT raise"), found, func=f.q)
    pc = F.one("colvarmodule::parse_config")
    br = [c for c in X.calls(pc) if c.get("cq") == "colvarparse::check_braces"]
    others = [c for c in X.calls(pc) if c.get("cq", "").startswith("colvarmodule::parse_")]
    ok = bool(br) and bool(others) and all(any(pc.cfg.dominates(b, o) for b in br) for o in others)
    rep.add("C09-R5", "parse_config|braces-first", pc.loc(), "check_braces() dominates all %d parse_* calls" % len(others), ok, func=pc.q)
    # and its failure returns an error
    rep.count("typed_extraction_bodies", n)


# ------------------------------------------------------------------------------------------------ R6
NPOS = "::npos"


def _size_of(f, n):
    """key of the container E when n is E.size() / E.length() on a const container, else None."""
    n = X.strip(n)
    if n["k"] != "CXXMemberCallExpr" or not (n.get("cq") or "").endswith(("::size", "::length")):
        return None
    r = X.receiver(n)
    if r is None:
        return None
    r = X.strip(r)
    if r["k"] != "DeclRefExpr" or "const" not in f.typestr(r.get("t")):
        return None
    return X.key(r, f)


def _defs(f, d):
    """(site, rhs) of every definition of the local with declaration id d; rhs None for a write that is not `=`."""
    out = []
    for n in f.walk():
        if n["k"] == "VarDecl" and n.get("d") == d:
            ks = X.kids(n)
            out.append((n, ks[0] if ks else None))
    from .rules_c10 import lvalue_writes
    for w, t in lvalue_writes(f):
        t = X.strip(t)
        if t["k"] == "DeclRefExpr" and t.get("d") == d:
            if w["k"] == "BinaryOperator" and w.get("op") == "=":
                out.append((w, X.kids(w)[1]))
            else:
                out.append((w, None))
    return out


def _npos_test(f, cond, d):
    """+1 if cond is `w == npos`, -1 if `w != npos` for the local w with declaration id d, else 0."""
    c = X.strip(cond)
    if c["k"] != "BinaryOperator" or c.get("op") not in ("==", "!="):
        return 0
    a, b = [X.strip(k) for k in X.kids(c)]
    for p, q in ((a, b), (b, a)):
        if p["k"] == "DeclRefExpr" and p.get("d") == d and X.key(q, f).endswith(NPOS):
            return 1 if c["op"] == "==" else -1
    return 0


def _within(F, f, e, cont, site, depth=0):
    """True when expression e (evaluated at `site`) is a position in 0..size(cont)."""
    from .rules_c03 import structural_guards
    e = X.strip(e)
    if _size_of(f, e) == cont:
        return True
    if C._lit(e) == 0:
        return True
    if e["k"] == "ConditionalOperator":
        c, a, b = X.kids(e)
        return _within(F, f, a, cont, a, depth) and _within(F, f, b, cont, b, depth)
    if e["k"] == "DeclRefExpr" and e.get("st") == "local" and depth < 3:
        d = e.get("d")
        ds = _defs(f, d)
        if not ds:
            return False
        # a search result in cont, used where it is known not to be npos
        if all(r is not None and X.strip(r)["k"] == "CXXMemberCallExpr" and
               (X.strip(r).get("cq") or "").split("::")[-1] in ("find", "rfind", "find_first_of", "find_first_not_of", "find_last_of", "find_last_not_of") and
               X.receiver(X.strip(r)) is not None and X.key(X.receiver(X.strip(r)), f) == cont for _, r in ds):
            for cn, pol in structural_guards(f, site):
                t = _npos_test(f, cn, d)
                if (t == 1 and not pol) or (t == -1 and pol):
                    return True
            return False
        return all(r is not None and _within(F, f, r, cont, s, depth + 1) for s, r in ds)
    return False


def r6(F, rep):
    rep.rule("C09-R6", "end-of-text tests are satisfiable: where a scanner compares a cursor with the size of the constant text "
                       "it scans, and every definition of the cursor is a position inside that text (a search result known not "
                       "to be npos, zero) or the size itself, the comparison holds at equality (>=, ==) or is the loop test "
                       "`<`: `cursor > size` can never be true, so the end-of-text exit it guards is dead and the scanner "
                       "cannot leave its loop on exhausted input")
    n = 0
    for f in F.funcs.values():
        if "/src/" not in f.file or f.body is None:
            continue
        for c in f.walk():
            if c["k"] != "BinaryOperator" or c.get("op") not in (">", ">=", "<", "<=", "==", "!="):
                continue
            a, b = X.kids(c)
            op = c["op"]
            cont = _size_of(f, b)
            cur = X.strip(a)
            if cont is None:
                cont = _size_of(f, a)
                cur = X.strip(b)
                op = {">": "<", "<": ">", ">=": "<=", "<=": ">="}.get(op, op)
            if cont is None or cur["k"] != "DeclRefExpr" or cur.get("st") != "local":
                continue
            if not _within(F, f, cur, cont, c):
                continue
            n += 1
            ok = op not in (">", "<=")
            rep.add("C09-R6", "%s|%s %s size(%s)" % (f.q, X.re_strip(X.key(cur, f)), op, X.re_strip(cont)), f.loc(c),
                    "%s: cursor `%s` never exceeds %s.size(); it is tested with `%s`" % (f.q, cur.get("n") or X.key(cur, f), X.re_strip(cont), op), ok,
                    detail="`cursor > size` is never true and `cursor <= size` always is: the test cannot detect the end of the text", func=f.q)
    if n < 1:
        raise AnalysisBroken("C09-R6: no bounded-cursor comparison found (colvarparse::key_lookup: line_end >= conf.size() expected)")
    rep.count("bounded_cursor_tests", n)


def r7(F, rep):
    rep.rule("C09-R7", "registry hygiene: a keyword lookup made through a parser object held in a member (it outlives the call) "
                       "in a local text that the function never passes to check_keywords() on that object cannot reach the "
                       "function's exit without passing through clear_keyword_registry()/clear() on the object: leftovers "
                       "(allowed keywords, value positions) would be applied to the next configuration parsed through it")
    n = 0
    for f in F.funcs.values():
        if "/src/" not in f.file or f.cls == "colvarparse" or f.body is None:
            continue
        checked = set()
        for c in X.calls(f):
            if X.callee_name(c) == CHECK_PRIM and X.receiver(c) is not None and X.call_args(c):
                checked.add((X.key(X.receiver(c), f), X.key(X.call_args(c)[0], f)))
        for l in X.calls(f):
            if l["k"] != "CXXMemberCallExpr" or X.callee_name(l) not in PARSE_PRIMS or X.receiver(l) is None or not X.call_args(l):
                continue
            r = X.strip(X.receiver(l))
            while r["k"] in ("UnaryOperator", "ImplicitCastExpr") and X.kids(r):
                r = X.strip(X.kids(r)[0])
            if r["k"] != "MemberExpr":
                continue                      # `this` (the object parses its own block) or a local parser
            obj = X.key(X.receiver(l), f)
            t = X.strip(X.call_args(l)[0])
            if t["k"] != "DeclRefExpr" or t.get("st") != "local" or (obj, X.key(t, f)) in checked:
                continue
            n += 1
            cl = [c for c in X.calls(f) if c.get("cq") in ("colvarparse::clear_keyword_registry", "colvarparse::clear") and
                  X.receiver(c) is not None and X.key(X.receiver(c), f) == obj]
            kw = X.key(X.call_args(l)[1], f) if len(X.call_args(l)) > 1 else "?"
            ok = bool(cl) and not f.cfg.exits_from(l, avoiding=cl)
            rep.add("C09-R7", "%s|%s|%s" % (f.q, X.re_strip(obj), kw), f.loc(l), "%s: lookup of %s in the local text `%s` through the long-lived parser `%s` (never keyword-checked) is followed by clear_keyword_registry() on every path to the exit: %s" % (
                f.q, kw, t.get("n"), X.re_strip(obj), ok), ok,
                detail="the next configuration handed to this parser would have the stale value ranges erased from it and the stale keywords accepted", func=f.q)
    if n < 3:
        raise AnalysisBroken("C09-R7: %d lookups followed by an explicit registry discharge found (state header: step, version, units expected)" % n)


def r8(F, rep):
    rep.rule("C09-R8", "a rejected configuration leaves the module parser clean: in colvarmodule::catch_input_errors() -- the gate "
                       "every parsing stage of parse_config() goes through -- every return of a value that may be non-zero is "
                       "dominated by parse->clear(); only the literal COLVARS_OK is returned without it (a stage can report "
                       "through cvm::error() and still return COLVARS_OK)")
    f = F.one("colvarmodule::catch_input_errors")
    clears = [c for c in X.calls(f) if X.callee_name(c) == "clear" and X.receiver(c) is not None and "parse" in X.key(X.receiver(c), f)]
    rets = [r for r in f.walk() if r["k"] == "ReturnStmt" and X.kids(r)]
    if not rets:
        raise AnalysisBroken("C09-R8: no return statement in catch_input_errors")
    n = 0
    for r in rets:
        v = X.kids(r)[0]
        lit = C._lit(X.strip(v))
        if lit == 0:
            continue
        n += 1
        ok = bool(clears) and any(f.cfg.dominates(c, r) for c in clears)
        rep.add("C09-R8", "catch_input_errors|return %s" % X.re_strip(X.key(v, f))[:40], f.loc(r), "catch_input_errors() returns `%s` %s" % (
            X.text(v, f)[:40], "after parse->clear()" if ok else "on a path that does NOT pass through parse->clear()"), ok,
            detail="the value ranges recorded while reading the rejected text are erased from the next configuration, and its keywords stay allowed", func=f.q)
    if n < 1:
        rep.add("C09-R8", "catch_input_errors|returns", f.loc(), "catch_input_errors() never returns an error value", False, func=f.q)
    # and every stage of parse_config goes through the gate
    pc = F.one("colvarmodule::parse_config")
    # stages applied to the text the user supplied (the function's parameter); the replay of auto-generated text further
    # down is internal and is not part of this obligation
    pd = pc.params[0]["d"] if pc.params else None
    stages = [c for c in X.calls(pc) if ((c.get("cq") or "").startswith("colvarmodule::parse_") or X.callee_name(c) == CHECK_PRIM) and
              X.call_args(c) and X.strip(X.call_args(c)[0])["k"] == "DeclRefExpr" and X.strip(X.call_args(c)[0]).get("d") == pd]
    for c in stages:
        gated = any(a["k"] in ("CallExpr", "CXXMemberCallExpr") and X.callee_name(a) == "catch_input_errors" for a in pc.ancestors(c))
        rep.add("C09-R8", "parse_config|gate|%s@%s" % (X.callee_name(c), X.re_strip(X.key(X.call_args(c)[0], pc))[:20] if X.call_args(c) else ""), pc.loc(c),
                "parse_config(): the result of %s() goes through catch_input_errors(): %s" % (X.callee_name(c), gated), gated, func=pc.q)
    if len(stages) < 4:
        raise AnalysisBroken("C09-R8: only %d parsing stages found in parse_config" % len(stages))


def r9(F, rep, rid="C09-R9"):
    rep.rule(rid, "a wrong separator fails the tuple: in every operator>> of the value types each comparison of the separator "
                  "character with a literal ('(', ',', ')') decides a setstate(failbit) -- it is part of a condition that guards "
                  "one, or it sits in a loop condition and a setstate() after the loop is guarded by a test of a counter that "
                  "the loop increments (an early exit leaves the counter short); a reader that only tests the stream state "
                  "afterwards accepts `(1 2 3)` or `(1; 2; 3)` and keeps whatever it had read")
    from .rules_c03 import all_guards
    n = 0
    for f in sorted(F.funcs.values(), key=lambda g: (g.q, g.m)):
        if "/src/" not in f.file or f.body is None or f.name != "operator>>":
            continue
        cmps = []
        for x in f.walk():
            if x["k"] == "BinaryOperator" and x.get("op") in ("==", "!="):
                ks = [X.strip(k) for k in X.kids(x)]
                if any(k["k"] == "CharacterLiteral" for k in ks) and any(k["k"] == "DeclRefExpr" for k in ks):
                    cmps.append(x)
        if not cmps:
            continue
        sets = [c for c in X.calls(f) if X.callee_name(c) == "setstate"]
        gconds = [(s0, [cn for cn, pol in all_guards(f, s0)]) for s0 in sets]
        seen = set()
        for cmp in cmps:
            lit = [X.strip(k).get("v") for k in X.kids(cmp) if X.strip(k)["k"] == "CharacterLiteral"][0]
            who = "operator>>(%s)" % (f.typestr(f.params[1]["t"]).replace("colvarmodule::", "") if len(f.params) > 1 else f.q)
            key = "%s|%s" % (who, chr(lit) if isinstance(lit, int) else lit)
            ok = any(any(y is cmp for y in f.walk(cn)) for s0, cns in gconds for cn in cns)
            how = "guards a setstate(failbit)"
            if not ok:
                loops = [a for a in f.ancestors(cmp) if a["k"] in ("WhileStmt", "ForStmt", "DoStmt")]
                if loops:
                    L = loops[0]
                    inc = {X.strip(X.kids(u)[0]).get("d") for u in f.walk(L) if u["k"] == "UnaryOperator" and u.get("op") in ("++", "post++") and X.strip(X.kids(u)[0])["k"] == "DeclRefExpr"}
                    for s0, cns in gconds:
                        if not (f.cfg.can_reach(cmp, s0) or any(f.cfg.can_reach(u, s0) for u in f.walk(L) if u["k"] == "UnaryOperator")):
                            continue
                        if any(y["k"] == "DeclRefExpr" and y.get("d") in inc for cn in cns for y in f.walk(cn)):
                            ok = True
                            how = "ends the loop early, and the counter test after the loop sets failbit"
            if key in seen and ok:
                continue
            seen.add(key)
            n += 1
            rep.add(rid, key, f.loc(cmp), "%s: the test of the separator against %r %s" % (who, chr(lit) if isinstance(lit, int) else lit, how if ok else "does NOT decide any setstate(failbit)"), ok,
                    detail="a tuple with a wrong or missing separator is accepted with the values read so far", func=f.q)
    if n < 6:
        raise AnalysisBroken("%s: only %d separator tests found in the value readers" % (rid, n))


def run(F, rep, tier):
    r9(F, rep)
    r8(F, rep)
    R1(F, rep).run()
    r2(F, rep)
    r3(F, rep)
    r4(F, rep)
    r5(F, rep)
    r6(F, rep)
    r7(F, rep)
