"""C16  PMF integration solves the stated discrete problem; incremental equals batch.

R1  gradient mutation => divergence refresh: every mutation of the gradient grid the integrator was built on is
    followed (in the same function or in every caller) by update_div_neighbors()/set_div() under b_integrate
R4  1D periodic closure: the subtracted mean ranges over the same bins as the cumulative sum
R2  dimension-suffix / index agreement in the Laplacian and divergence stencils of integrate_potential
R5  a grid's geometry is its own: grid code reads a variable's width / boundaries only where it also handles its own copies
"""
import re

from . import expr as X
from . import cond as C
from . import callgraph
from .facts import AnalysisBroken

MUTATORS = ("acc_force", "add_grid", "raw_data_in", "read_raw", "read_multicol", "copy_grid", "read_restart",
            "multiply_constant", "reset", "set_value", "acc_value")
REFRESH = ("update_div_neighbors", "set_div")


def recv_field(f, c):
    r = X.receiver(c)
    if r is None:
        return None
    names = [x["n"] for x in f.walk(r) if x["k"] == "MemberExpr" and x.get("dk") == "Field"]
    return names[0] if names else None


def r1(F, rep):
    rep.rule("C16-R1", "a PMF object whose integrate() is ever called without a preceding full set_div() relies on the "
                       "incrementally maintained divergence: every mutation of the gradient grid it was constructed on "
                       "must then be followed -- in the same function or in every caller after the call -- by "
                       "update_div_neighbors() or set_div() whenever b_integrate is on; all other PMF objects recompute "
                       "the divergence (set_div) right before integrating")
    cg = callgraph.get(F)
    abf = [f for f in F.funcs.values() if f.cls == "colvarbias_abf" and f.cfg.ok]
    # PMF object -> gradient grid it was constructed on
    built = {}
    for f in abf:
        for n in f.walk():
            if n["k"] == "CXXNewExpr" and "integrate_potential" in f.typestr(n.get("at")):
                grids = [x["n"] for x in f.walk(n) if x["k"] == "MemberExpr" and x.get("dk") == "Field" and "gradients" in x["n"]]
                tgt = None
                for a in f.ancestors(n):
                    if a["k"] == "CXXMemberCallExpr" and X.callee_name(a) == "reset":
                        tgt = recv_field(f, a)
                        break
                    if a["k"] in ("BinaryOperator", "CXXOperatorCallExpr") and a.get("op") == "=":
                        l = X.kids(a)[0] if a["k"] == "BinaryOperator" else X.call_args(a)[0]
                        ns = [x["n"] for x in f.walk(l) if x["k"] == "MemberExpr" and x.get("dk") == "Field"]
                        tgt = ns[0] if ns else None
                        break
                if tgt and grids:
                    built[tgt] = grids[0]
    if "pmf" not in built:
        raise AnalysisBroken("integrate_potential objects of colvarbias_abf not found (got %s)" % built)
    # every estimator integrates its own gradients: no two PMF objects are constructed on the same gradient grid
    for P in sorted(built):
        twins = sorted(Q for Q in built if Q != P and built[Q] == built[P])
        rep.add("C16-R1", "built|%s" % P, "", "PMF object `%s` is constructed on `%s`%s" % (P, built[P], (", like `%s`" % twins[0]) if twins else " and no other PMF object is"), not twins,
                detail="two integrators on one gradient grid: one of the written PMFs is the integral of another estimator's gradients, not of "
                       "the gradients written next to it", func="colvarbias_abf")
    # integrate() call sites
    incremental = set()
    for f in abf:
        for c in X.calls(f):
            if c["k"] == "CXXMemberCallExpr" and X.callee_name(c) == "integrate" and "integrate_potential" in c.get("rc", ""):
                P = recv_field(f, c)
                targets = []
                if P is not None:
                    sd = [d for d in X.calls(f) if d["k"] == "CXXMemberCallExpr" and X.callee_name(d) == "set_div"
                          and recv_field(f, d) == P and f.cfg.dominates(d, c)]
                    targets.append((P, bool(sd)))
                else:
                    # a local alias:  pmf_out = pmf.get()  /  local_pmf.get()
                    r = X.strip(X.receiver(c))
                    if r["k"] == "DeclRefExpr" and r.get("st") == "local":
                        alias_sd = [d for d in X.calls(f) if d["k"] == "CXXMemberCallExpr" and X.callee_name(d) == "set_div"
                                    and X.receiver(d) is not None and X.key(X.receiver(d), f) == X.key(r, f) and f.cfg.dominates(d, c)]
                        for w in f.walk():
                            if w["k"] == "BinaryOperator" and w["op"] == "=" and X.key(X.kids(w)[0], f) == X.key(r, f):
                                srcs = [x["n"] for x in f.walk(X.kids(w)[1]) if x["k"] == "MemberExpr" and x.get("dk") == "Field"]
                                if not srcs:
                                    continue
                                S = srcs[0]
                                gw = set(f.cfg.real_guards(w))
                                sd = [d for d in X.calls(f) if d["k"] == "CXXMemberCallExpr" and X.callee_name(d) == "set_div"
                                      and recv_field(f, d) == S and set(f.cfg.real_guards(d)) == gw and f.cfg.can_reach(d, c)]
                                targets.append((S, bool(sd) or bool(alias_sd)))
                if not targets:
                    rep.add("C16-R1", "integrate|%s|unresolved" % f.q, f.loc(c), "integrate() on an object that cannot be resolved", False, func=f.q)
                for P2, batch in targets:
                    if not batch:
                        incremental.add(P2)
                    rep.add("C16-R1", "integrate|%s|%s" % (f.q, P2), f.loc(c),
                            "%s->integrate() in %s %s" % (P2, f.q, "follows a full set_div()" if batch else
                                                          "uses the incrementally maintained divergence"), True, func=f.q)
    rep.count("incremental_pmfs", len(incremental))
    n = 0
    for P in sorted(incremental):
        G = built.get(P)
        if G is None:
            rep.add("C16-R1", "incremental|%s|grid" % P, "", "PMF %s integrates incrementally but its gradient grid is unknown" % P, False)
            continue
        for f in abf:
            muts = []
            for c in X.calls(f):
                if c["k"] == "CXXMemberCallExpr" and X.callee_name(c) in MUTATORS and recv_field(f, c) == G:
                    if "_ptr" in c.get("rc", ""):
                        continue     # smart-pointer reset(): construction, not a mutation of the grid
                    muts.append(c)
            for m in muts:
                n += 1
                ok, why = refreshed_after(F, cg, f, m, P, 0, set())
                rep.add("C16-R1", "%s|%s|%s" % (f.q, G, X.callee_name(m)), f.loc(m),
                        "%s->%s() in %s: %s" % (G, X.callee_name(m), f.q, why), ok,
                        detail="a stale divergence makes the incrementally integrated PMF differ from the batch one", func=f.q)
                # a local refresh must be centred on the bin that was modified
                if X.callee_name(m) == "acc_force" and X.call_args(m):
                    ixk = X.re_strip(X.key(X.call_args(m)[0], f))
                    for r in X.calls(f):
                        if r["k"] == "CXXMemberCallExpr" and X.callee_name(r) == "update_div_neighbors" and recv_field(f, r) == P and \
                                f.cfg.can_reach(m, r) and X.call_args(r):
                            jxk = X.re_strip(X.key(X.call_args(r)[0], f))
                            n += 1
                            rep.add("C16-R1", "%s|%s|acc_force|same-bin" % (f.q, G), f.loc(r),
                                    "the sample goes into bin `%s` and the divergence is refreshed around `%s`" % (ixk, jxk), ixk == jxk,
                                    detail="the divergence around the modified bin stays stale whenever the two bins differ (one-step-late forces)", func=f.q)
    rep.count("gradient_mutation_sites", n)
    if n < 3:
        raise AnalysisBroken("only %d mutation sites of the incrementally integrated gradient grid found" % n)


def refreshed_after(F, cg, f, site, P, depth, seen):
    res = X.const_locals(f)
    refresh = [c for c in X.calls(f) if c["k"] == "CXXMemberCallExpr" and X.callee_name(c) in REFRESH and recv_field(f, c) == P]
    known = {("true", "this.b_integrate"), ("nz", "this.b_integrate")}
    # the mutating call itself succeeded
    cur = site
    for a in [site] + list(f.ancestors(site)):
        if a["k"] in ("IfStmt", "CompoundStmt", "ForStmt", "WhileStmt"):
            break
        if "t" in a:
            k = X.key(a, f, res)
            known |= {("true", k), ("nz", k)}
    # error exits: blocks that raise an error
    err_blocks = set()
    for c in X.calls(f):
        if c.get("cq") in ("colvarmodule::error",):
            pos = f.cfg.block_of(c)
            if pos:
                err_blocks.add(pos[0])
    if refresh:
        blocks = {}
        for r in refresh:
            pos = f.cfg.block_of(r)
            if pos:
                blocks[pos[0]] = min(blocks.get(pos[0], 1 << 30), pos[1])
        ps = f.cfg.block_of(site)
        leak = False
        if ps is not None and not (ps[0] in blocks and blocks[ps[0]] > ps[1]):
            seenb, stack = set(), [(ps[0], True)]
            while stack:
                b, first = stack.pop()
                if not first:
                    if b in seenb:
                        continue
                    seenb.add(b)
                    if b in blocks or b in err_blocks:
                        continue
                    if b == f.cfg.exit:
                        leak = True
                        break
                blk = f.cfg.blocks[b]
                for i, sx in enumerate(blk["s"]):
                    if sx is None:
                        continue
                    if blk.get("cond") is not None and len(blk["s"]) == 2 and blk.get("tk") not in ("SwitchStmt", "CXXTryStmt"):
                        ef = C.facts(f, f.nodes[blk["cond"]], i == 0, res)
                        if C.contradicts(ef, known):
                            continue
                    stack.append((sx, False))
        if not leak:
            return True, "followed by %s->%s() on every path where b_integrate is on" % (P, "/".join(sorted({X.callee_name(r) for r in refresh})))
    if depth > 3 or f.m in seen:
        return False, "no divergence refresh follows"
    callers = [(g, c) for g, c in cg.callers(f.m) if g.cls == f.cls]
    if not callers:
        return False, "no divergence refresh follows in %s and it has no caller in the class" % f.q
    for g, c in callers:
        ok, why = refreshed_after(F, cg, g, c, P, depth + 1, seen | {f.m})
        if not ok:
            return False, "caller %s does not refresh the divergence after the call" % g.q
    return True, "every caller refreshes the divergence after the call"


SUF = {"x": 0, "y": 1, "z": 2}


def r2(F, rep):
    rep.rule("C16-R2", "dimension agreement in the discrete operators of integrate_potential: a local whose name ends in "
                       "x / y / z is initialised only from element 0 / 1 / 2 of the per-dimension arrays (widths, periodic, nx)")
    n = 0
    seen = set()
    for f in F.funcs.values():
        if f.cls != "integrate_potential":
            continue
        for v in f.walk():
            if v["k"] != "VarDecl" or not X.kids(v):
                continue
            m = re.search(r"([xyz])$", v["n"])
            if not m:
                continue
            want = SUF[m.group(1)]
            idxs = []
            for x in f.walk(X.kids(v)[0]):
                if x["k"] == "CXXOperatorCallExpr" and x.get("op") == "[]":
                    a = X.call_args(x)
                    base, i = X.strip(a[0]), X.strip(a[1])
                    if base["k"] == "MemberExpr" and i["k"] == "IntegerLiteral":
                        idxs.append((base["n"], i["v"]))
            if not idxs:
                continue
            key = "%s|%s|%s" % (f.q, v["n"], ",".join("%s[%d]" % t for t in idxs))
            if key in seen:
                continue
            seen.add(key)
            n += 1
            bad = [t for t in idxs if t[1] != want]
            rep.add("C16-R2", key, f.loc(v), "%s in %s is built from %s" % (v["n"], f.q, ", ".join("%s[%d]" % t for t in idxs)),
                    not bad, detail="the stencil weight of one dimension would follow another dimension's width or periodicity",
                    func=f.q)
    if n < 6:
        raise AnalysisBroken("only %d dimension-suffixed locals found in integrate_potential" % n)


def r3(F, rep):
    rep.rule("C16-R3", "the incremental divergence update visits every cell whose divergence depends on the changed gradient: "
                       "update_div_neighbors() calls update_div_local() on 2^d grid points (4 calls in two dimensions; a 2x2x2 "
                       "loop nest in three), and every call is preceded by wrap() of the index it uses")
    f = F.one("integrate_potential::update_div_neighbors")
    res = X.const_locals(f)
    calls = [c for c in X.calls(f) if X.callee_name(c) == "update_div_local"]
    wraps = [c for c in X.calls(f) if X.callee_name(c) == "wrap"]
    by_dim = {}
    for c in calls:
        facts, _ = C.guard_facts(f, c, res)
        dim = None
        for t in facts:
            if t[0] == "cmp" and t[1] == "==" and "nd" in t[2] and t[3] in ("2", "3"):
                dim = int(t[3])
            if t[0] == "eq" and "nd" in str(t):
                for v in ("2", "3"):
                    if v in t[1:]:
                        dim = int(v)
        loops = [a for a in f.ancestors(c) if a["k"] == "ForStmt"]
        mult = 1
        for l in loops:
            cnd = X.strip(l["c"][1]) if l["c"][1] is not None else None
            if cnd is not None and cnd["k"] == "BinaryOperator" and cnd["op"] == "<" and C._lit(X.kids(cnd)[1]) is not None:
                mult *= int(C._lit(X.kids(cnd)[1]))
            else:
                mult = 0
        by_dim.setdefault(dim, []).append((c, mult))
    for dim in (2, 3):
        total = sum(m for _, m in by_dim.get(dim, []))
        rep.add("C16-R3", "cells|%dd" % dim, f.loc(by_dim[dim][0][0]) if by_dim.get(dim) else f.loc(),
                "in %d dimensions update_div_local() runs on %d grid points (expected %d)" % (dim, total, 2 ** dim), total == 2 ** dim,
                detail="a neighbouring cell keeps a stale divergence: the incrementally maintained PMF differs from the batch one", func=f.q)
    for i, c in enumerate(calls):
        # a wrap() of the same index vector executes between the previous index change and this call
        prev = [w for w in wraps if f.cfg.can_reach(w, c)]
        first_plain = (i == 0 and not any(a["k"] == "ForStmt" for a in f.ancestors(c)))
        ok = first_plain or any(f.cfg.dominates(w, c) or (any(a["k"] == "ForStmt" for a in f.ancestors(c)) and
                                                           [a for a in f.ancestors(w) if a["k"] == "ForStmt"][:1] == [a for a in f.ancestors(c) if a["k"] == "ForStmt"][:1])
                                for w in prev)
        rep.add("C16-R3", "wrapped|#%d" % (i + 1), f.loc(c), "update_div_local() call #%d uses an index that was wrapped after it was moved" % (i + 1), ok,
                detail="with periodic boundaries the neighbour across the boundary would be addressed outside the grid", func=f.q)
    # a component that an inner loop advances is rewound once per iteration of the loop around it
    def comp(node):
        n0 = X.strip(node)
        if n0["k"] == "CXXOperatorCallExpr" and n0.get("op") == "[]" and len(X.call_args(n0)) == 2:
            b, i = X.call_args(n0)
            v = C._lit(i)
            if X.strip(b)["k"] == "DeclRefExpr" and v is not None:
                return (X.strip(b).get("d"), int(v))
        return None

    def loop_of(node):
        for a in f.ancestors(node):
            if a["k"] == "ForStmt":
                return a
        return None
    from .rules_c10 import lvalue_writes
    writes = [(w, comp(t)) for w, t in lvalue_writes(f) if comp(t) is not None]
    for w, c in writes:
        if not (w["k"] == "UnaryOperator" and w.get("op") in ("++", "post++")):
            continue
        L = loop_of(w)
        if L is None:
            continue
        P = loop_of(L)
        if P is None:
            continue
        resets = [w2 for w2, c2 in writes if c2 == c and w2["k"] in ("BinaryOperator", "CXXOperatorCallExpr") and w2.get("op") == "=" and loop_of(w2) is P]
        ok = any(f.cfg.can_reach(r, w) for r in resets)
        rep.add("C16-R3", "rewind|ix[%d]" % c[1], f.loc(resets[0]) if resets else f.loc(L), "component %d of the index is advanced by an inner loop and %s" % (
            c[1], "set back at every iteration of the loop around it" if ok else "NOT set back in the loop directly around it"), ok,
            detail="from the second pass on the inner loop starts two cells further: half of the 2^d neighbours keep a stale divergence", func=f.q)
    if len(calls) < 2:
        raise AnalysisBroken("update_div_neighbors: only %d update_div_local calls found" % len(calls))


def r4(F, rep):
    rep.rule("C16-R4", "one-dimensional periodic PMF closes: integrate() subtracts from every bin of its cumulative sum the value "
                       "returned by the gradient grid's average(); that function sums the same per-bin quantity over every "
                       "bin of the grid without skipping any (no condition or `continue` inside its loop) and divides by the "
                       "number of points of the grid, not by a count taken inside the loop")
    f = F.one("integrate_potential::integrate")
    corr = [c for c in X.calls(f) if X.callee_name(c) == "average" and c["k"] == "CXXMemberCallExpr"]
    if not corr:
        rep.add("C16-R4", "integrate|correction", f.loc(), "integrate() no longer subtracts the mean gradient for a periodic variable", False, func=f.q)
        return
    per_bin = set()
    for l in f.walk():
        if l["k"] == "ForStmt":
            for c in X.calls(f, l):
                if X.callee_name(c).startswith("value_output"):
                    per_bin.add(X.callee_name(c))
    if not per_bin:
        raise AnalysisBroken("C16-R4: per-bin gradient read in the 1D branch of integrate() not found")
    a = F.funcs.get(corr[0].get("callee"))
    if a is None or a.body is None:
        raise AnalysisBroken("C16-R4: body of the averaging function not found")
    from .rules_c10 import lvalue_writes
    from .rules_c03 import structural_guards
    loops = [l for l in a.walk() if l["k"] == "ForStmt"]
    if not loops:
        raise AnalysisBroken("C16-R4: no loop in %s" % a.q)
    L = loops[0]
    acc = [(w, t) for w, t in lvalue_writes(a) if w.get("op") == "+=" and any(x is L for x in a.ancestors(w))]
    same = any(X.callee_name(c) in per_bin for w, t in acc for c in X.calls(a, w))
    cond = [g for w, t in acc for g in structural_guards(a, w) if any(x is L for x in a.ancestors(g[0]))]
    skips = [n for n in a.walk(L) if n["k"] in ("ContinueStmt", "BreakStmt")]
    rep.add("C16-R4", "average|every-bin", a.loc(L), "%s adds %s for every bin of its loop: %s" % (
        a.q, "/".join(sorted(per_bin)), "yes" if (acc and same and not cond and not skips) else
        "NO (%d accumulation(s), same quantity: %s, %d condition(s), %d continue/break)" % (len(acc), same, len(cond), len(skips))),
        bool(acc) and same and not cond and not skips,
        detail="integrate() adds (g - corr) * width for every bin: the sum returns to zero after one period only if corr is the mean over all of them", func=a.q)
    # divisor
    rets = [r for r in a.walk() if r["k"] == "ReturnStmt" and X.kids(r)]
    ok = False
    what = "?"
    for r in rets:
        e = X.strip(X.kids(r)[0])
        if e["k"] == "BinaryOperator" and e.get("op") == "/":
            d = X.kids(e)[1]
            what = X.re_strip(X.key(d, a))
            counters = {X.strip(t).get("d") for w, t in lvalue_writes(a) if any(x is L for x in a.ancestors(w)) and X.strip(t)["k"] == "DeclRefExpr"}
            uses_counter = X.mentions(d, lambda m: m["k"] == "DeclRefExpr" and m.get("d") in counters)
            ok = ("nx" in what or "number_of_points" in what or "nt" in what) and not uses_counter
    rep.add("C16-R4", "average|divisor", a.loc(rets[-1]) if rets else a.loc(), "%s divides the sum by `%s`%s" % (
        a.q, what, "" if ok else " -- not the number of grid points"), ok,
        detail="a divisor counted inside the loop is the number of bins that contributed, not the number of bins the cumulative sum runs over", func=a.q)


def r5(F, rep, rid="C16-R5"):
    rep.rule(rid, "a grid computes with its own geometry: inside the member functions of the grid classes a variable's `width`, "
                  "`lower_boundary` or `upper_boundary` is copied, compared or validated (the initialiser, the consistency "
                  "check) but never an operand of + - * / -- sums and abscissas are formed from the grid's own `widths` and "
                  "`lower_boundaries`, which a `grid { ... }` block may have set to other values than the variable's")
    own = {"width": "widths", "lower_boundary": "lower_boundaries", "upper_boundary": "upper_boundaries"}
    n = 0
    seen = {}
    for f in sorted(F.funcs.values(), key=lambda g: (g.q, g.m)):
        if "/src/" not in f.file or f.body is None or not f.cls or not f.cls.startswith(("colvar_grid", "integrate_potential")):
            continue
        for x in f.walk():
            if x["k"] != "MemberExpr" or x.get("dk") != "Field":
                continue
            q = x.get("q") or ""
            nm = q.split("::")[-1]
            if not (q.startswith("colvar::") and nm in own):
                continue
            # climb through member accesses, casts and parentheses to the expression that consumes the value
            cur, par = x, f.parent(x)
            while par is not None and par["k"] in ("MemberExpr", "ImplicitCastExpr", "ParenExpr", "CXXFunctionalCastExpr", "CStyleCastExpr",
                                                   "CXXStaticCastExpr", "MaterializeTemporaryExpr", "CXXBindTemporaryExpr"):
                cur, par = par, f.parent(par)
            arith = par is not None and ((par["k"] == "BinaryOperator" and par.get("op") in ("+", "-", "*", "/")) or
                                         (par["k"] == "CXXOperatorCallExpr" and par.get("op") in ("+", "-", "*", "/")) or
                                         (par["k"] == "CompoundAssignOperator"))
            key = "%s|%s" % (f.q, nm)
            st = seen.setdefault(key, {"f": f, "x": x, "arith": None})
            if arith and st["arith"] is None:
                st["arith"] = x
    for key, st in sorted(seen.items()):
        n += 1
        f, nm = st["f"], key.split("|")[-1]
        bad = st["arith"]
        rep.add(rid, key, f.loc(bad if bad is not None else st["x"]), "%s reads the variable's `%s` %s" % (
            f.q, nm, "only to copy, compare or validate it" if bad is None else "as an operand of arithmetic, instead of the grid's own `%s`" % own[nm]), bad is None,
            detail="with a `grid { ... }` block of its own the grid's width and boundaries differ from the variable's: the integral is "
                   "scaled by the wrong bin width and written against the wrong abscissa", func=f.q)
    if n < 3:
        raise AnalysisBroken("%s: only %d reads of a variable's geometry inside grid classes (the grid initialiser and the consistency check expected)" % (rid, n))


def run(F, rep, tier):
    r5(F, rep)
    r4(F, rep)
    r1(F, rep)
    r2(F, rep)
    r3(F, rep)
