"""C11  State files are crash-consistent; damaged state never crashes the host.

R1  rename-before-overwrite: every output file stream is constructed in
    colvarproxy_io::output_stream after backup_file(); nobody else opens files for writing
R3  memory_stream copy/advance agreement (memcpy size == position increment; sum == reserved)
R4  untrusted lengths cannot overflow the bounds check
R5  only memcpy-safe types are accepted (compile-fail witness)
R8  publish after close: a file written through output_stream() is renamed onto its final name only after its stream was closed
"""
import os
import subprocess
import tempfile

from . import expr as X
from . import cond as C
from .facts import AnalysisBroken, VERIF, RESOURCE_DIR, repo_root
from .common import load_table

MS = "colvarmodule::memory_stream"


def flatten_sum(n, f, res):
    """Multiset (sorted list) of canonical keys of the terms of a + b + c."""
    n = X.strip(n)
    if n["k"] == "DeclRefExpr" and res and n.get("d") in res:
        return flatten_sum(res[n["d"]], f, res)
    if n["k"] == "BinaryOperator" and n["op"] == "+":
        a, b = X.kids(n)
        return sorted(flatten_sum(a, f, res) + flatten_sum(b, f, res))
    return [X.key(n, f, res)]


def next_stmt(f, n):
    """The statement following the full-expression statement containing n in its
    enclosing compound statement (None if last)."""
    cur = n
    p = f.parent(cur)
    while p is not None and p["k"] != "CompoundStmt":
        cur = p
        p = f.parent(cur)
    if p is None:
        return None
    ks = X.kids(p)
    for i, s in enumerate(ks):
        if s is cur:
            return ks[i + 1] if i + 1 < len(ks) else None
    return None


def ms_call(n, name):
    return n is not None and n["k"] == "CXXMemberCallExpr" and n.get("cq") == MS + "::" + name


def r3_r4(F, rep):
    rep.rule("C11-R3", "in every memory_stream write_*/read_* body each memcpy of N bytes is followed by a position "
                       "increment of the same N, guarded by expand_output_buffer(sum of Ns) / has_remaining(N)")
    rep.rule("C11-R4", "a length loaded from the input buffer reaches has_remaining() only in an overflow-safe form "
                       "(element size 1, or preceded by a comparison against a quotient)")
    funcs = [f for f in F.funcs.values() if f.cls == MS and f.name in (
        "write_object", "write_vector", "read_object", "read_vector")]
    if not funcs:
        raise AnalysisBroken("no memory_stream read/write bodies found")
    seen = {}
    for f in funcs:
        res = X.const_locals(f)
        memcpys = [c for c in X.calls(f) if c.get("cq") in ("memcpy", "std::memcpy")]
        if not memcpys:
            continue
        rep.count("memstream_bodies")
        writer = f.name.startswith("write")
        tkey = f.m  # distinguishes instantiations
        sizes = []
        untrusted = set()
        for mc in memcpys:
            dst, src, n = X.call_args(mc)
            nk = X.key(n, f, res)
            sizes.append(nk)
            buf = dst if writer else src
            want = "output_location" if writer else "input_location"
            if not ms_call(X.strip(buf), want):
                seen["%s|memcpy-endpoint|%s" % (tkey, nk)] = (
                    False, f.loc(mc), "memcpy in %s does not use %s() as its buffer end" % (f.q, want), "", f.q)
                continue
            if not writer:
                d = X.strip(dst)
                if d["k"] == "UnaryOperator" and d["op"] == "&":
                    t = X.strip(X.kids(d)[0])
                    if t["k"] == "DeclRefExpr" and t.get("st") == "local":
                        untrusted.add(X.key(t, f))
            # next statement must advance by the same amount
            nx = next_stmt(f, mc)
            adv = "incr_write_pos" if writer else "incr_read_pos"
            ok = ms_call(nx, adv)
            got = X.key(X.call_args(nx)[0], f, res) if ok else None
            good = ok and got == nk
            seen["%s|advance|%s" % (tkey, nk)] = (
                good, f.loc(mc),
                ("memcpy of `%s` bytes is followed by %s(`%s`)" % (X.re_strip(nk) if hasattr(X, "re_strip") else nk, adv, got))
                if ok else "memcpy of `%s` bytes is not immediately followed by %s()" % (nk, adv),
                "copy size and position increment must be the same expression (template-level, not just equal for "
                "8-byte types)", f.q)
            # guard
            facts, gs = C.guard_facts(f, mc, res)
            if writer:
                g = [f.nodes[c] for c, p in gs if p and ms_call(X.strip(f.nodes[c]), "expand_output_buffer")]
                if not g:
                    seen["%s|reserve|%s" % (tkey, nk)] = (False, f.loc(mc), "memcpy not guarded by expand_output_buffer()", "", f.q)
            else:
                g = [f.nodes[c] for c, p in gs if p and X.mentions(f.nodes[c], lambda x: ms_call(x, "has_remaining"))]
                hk = []
                for cn in g:
                    for x in f.walk(cn):
                        if ms_call(x, "has_remaining"):
                            hk.append((X.key(X.call_args(x)[0], f, res), x))
                good = any(k == nk for k, _ in hk)
                seen["%s|bounds|%s" % (tkey, nk)] = (
                    good, f.loc(mc), "memcpy of `%s` bytes from the input %s dominated by has_remaining(`%s`)" % (
                        nk, "is" if good else "is NOT", nk), "", f.q)
        if writer:
            # sum of copy sizes == reserved size
            res_calls = [c for c in X.calls(f) if ms_call(c, "expand_output_buffer")]
            if len(res_calls) == 1:
                reserved = flatten_sum(X.call_args(res_calls[0])[0], f, res)
                total = sorted(sum((flatten_sum_key(k) for k in sizes), []))
                copied = sorted(sum((flatten_sum(X.call_args(mc)[2], f, res) for mc in memcpys), []))
                good = reserved == copied
                seen["%s|sum" % tkey] = (good, f.loc(res_calls[0]),
                                         "reserved %s vs copied %s" % (reserved, copied),
                                         "expand_output_buffer must reserve exactly what the memcpys write", f.q)
        else:
            # R4: untrusted length in has_remaining argument
            for x in f.walk():
                if not ms_call(x, "has_remaining"):
                    continue
                a = X.strip(X.call_args(x)[0])
                if a["k"] == "DeclRefExpr" and res and a.get("d") in res:
                    a = X.strip(res[a["d"]])
                if a["k"] == "BinaryOperator" and a["op"] == "*":
                    l, r = X.kids(a)
                    for u, other in ((l, r), (r, l)):
                        if X.key(u, f) in untrusted:
                            o = X.strip(other)
                            one = (o["k"] == "UnaryExprOrTypeTraitExpr" and o.get("v") == 1) or C._lit(o) == 1
                            safe = one
                            why = "element size 1" if one else ""
                            if not safe:
                                facts, gs = C.guard_facts(f, x, res)
                                ku, ko = X.key(u, f, res), X.key(other, f, res)
                                for t in facts:
                                    if t[0] == "cmp" and t[1] in ("<=", "<") and t[2] == ku and ("/ %s)" % ko) in t[3]:
                                        safe = True
                                        why = "length compared against a quotient first: %s" % (t,)
                            seen["%s|overflow|%s" % (tkey, X.key(a, f, res))] = (
                                safe, f.loc(x),
                                "length read from the input is multiplied by `%s` inside has_remaining(): %s" % (
                                    X.text(other, f), why or "the product can wrap and pass the check"),
                                "a corrupt length makes resize()/assign() throw or memcpy overrun", f.q)
    # R4: the bounds check itself must be overflow-safe: its (caller-controlled) size
    # parameter appears alone on one side of the comparison, never under + or *
    hr = [f for f in F.funcs.values() if f.cls == MS and f.name == "has_remaining"]
    if not hr:
        raise AnalysisBroken("anchor memory_stream::has_remaining vanished")
    for f in hr:
        pk = {"%s#%s" % (p["n"], p["d"]) for p in f.params}
        cmps = [n for n in f.walk() if n["k"] == "BinaryOperator" and n["op"] in ("<", "<=", ">", ">=")]
        ok = bool(cmps)
        why = "no comparison found"
        for cnode in cmps:
            l, r = X.kids(cnode)
            kl, kr = X.key(l, f), X.key(r, f)
            alone = (kl in pk and not any(p in kr for p in pk)) or (kr in pk and not any(p in kl for p in pk))
            if not alone:
                ok = False
                why = "the requested size takes part in arithmetic inside the comparison `%s`, which can wrap" % X.text(cnode, f)
            else:
                why = "requested size stands alone in `%s`" % X.text(cnode, f)
        seen["%s|overflow|has_remaining" % f.q] = (ok, f.loc(), "bounds check of the binary reader: " + why,
                                                    "a corrupt length near 2^64 must not pass the check", f.q)
    for k, (ok, loc, what, detail, fq) in seen.items():
        rid = "C11-R4" if "|overflow|" in k else "C11-R3"
        rep.add(rid, k, loc, what, ok, detail=detail, func=fq)


def flatten_sum_key(k):
    return [k]


def r1(F, rep):
    rep.rule("C11-R1", "every construction of an output file stream happens in colvarproxy_io::output_stream and is "
                       "dominated by backup_file(); no other function opens a file for writing")
    exempt = {e["function"]: e["reason"] for e in load_table("c11_exempt.json")["R1_writers"]}
    owner = "colvarproxy_io::output_stream"
    n_sites = 0
    for f in F.funcs.values():
        if "/src/" not in f.file:
            continue
        for n in f.walk():
            hit = None
            if n["k"] == "CXXNewExpr" and ("ofstream" in f.typestr(n.get("at")) or "basic_fstream" in f.typestr(n.get("at"))):
                hit = "new " + f.typestr(n.get("at"))
            elif n["k"] in ("CXXConstructExpr", "CXXTemporaryObjectExpr") and (
                    "ofstream" in n.get("rc", "") or "basic_fstream" in n.get("rc", "")):
                p = f.parent(n)
                if p is not None and p["k"] == "CXXNewExpr":
                    continue
                if not X.call_args(n):
                    continue   # default-constructed, opened later (caught by .open below)
                hit = "construct " + n.get("rc", "")
            elif n["k"] == "CXXMemberCallExpr" and X.callee_name(n) == "open" and (
                    "ofstream" in n.get("rc", "") or "basic_fstream" in n.get("rc", "") or "basic_filebuf" in n.get("rc", "")):
                hit = "open on " + n.get("rc", "")
            elif n["k"] == "CallExpr" and n.get("cq") in ("fopen", "std::fopen", "freopen", "open", "creat"):
                hit = "call " + n["cq"]
            if not hit:
                continue
            n_sites += 1
            if f.q == owner:
                bk = [c for c in X.calls(f) if c.get("cq") == "colvarproxy_io::backup_file"]
                ok = any(f.cfg.dominates(b, n) for b in bk)
                rep.add("C11-R1", "%s|%s" % (f.q, hit), f.loc(n),
                        "output stream construction is %sdominated by backup_file()" % ("" if ok else "NOT "), ok,
                        detail="without the rename an existing state file is truncated in place: a crash leaves no loadable state",
                        func=f.q)
            elif f.q in exempt:
                rep.add("C11-R1", "%s|%s" % (f.q, hit), f.loc(n), "exempt writer: " + exempt[f.q], True, func=f.q)
            else:
                rep.add("C11-R1", "%s|%s" % (f.q, hit), f.loc(n),
                        "file opened for writing outside colvarproxy_io::output_stream (%s)" % hit, False,
                        detail="bypasses the backup-before-overwrite discipline", func=f.q)
    rep.count("file_write_sites", n_sites)
    # state writers obtain their stream only from output_stream
    for q in ("colvarmodule::write_restart_file", "colvarbias::write_state_prefix"):
        for f in F.need(q):
            outs = [c for c in X.calls(f) if X.callee_name(c) == "output_stream"]
            rep.add("C11-R1", "%s|uses-output_stream" % q, f.loc(), "state writer obtains its stream from output_stream()",
                    bool(outs), func=f.q)


def r2(F, rep):
    rep.rule("C11-R2", "the state stream is closed after the state is written (close_output_stream with the same name "
                       "is reached from the output_stream call on every non-error path), so the next save re-enters R1")
    for q in ("colvarmodule::write_restart_file", "colvarbias::write_state_prefix"):
        for f in F.need(q):
            res = X.const_locals(f)
            outs = [c for c in X.calls(f) if X.callee_name(c) == "output_stream"]
            closes = [c for c in X.calls(f) if X.callee_name(c) == "close_output_stream"]
            for o in outs:
                name = X.key(X.call_args(o)[0], f, res)
                same = [c for c in closes if X.key(X.call_args(c)[0], f, res) == name]
                # every path from o to exit passes a matching close, except paths leaving through a return
                # that is guarded by a failed stream test (error exit)
                ok = bool(same) and not f.cfg.exits_from(o, avoiding=same + error_returns(f, o))
                rep.add("C11-R2", "%s|close|%s" % (q, name), f.loc(o),
                        "stream `%s` opened for the state is %sclosed on every normal path" % (X.re_strip(name), "" if ok else "NOT "),
                        ok, detail="an unclosed state stream is reused by the next save without backup (in-place overwrite)",
                        func=f.q)


def error_returns(f, after):
    """Return statements that are taken only when the stream is bad / an error was raised."""
    out = []
    for n in f.walk():
        if n["k"] != "ReturnStmt":
            continue
        facts, gs = C.guard_facts(f, n)
        for t in facts:
            if t[0] in ("false", "z") and ("os" in t[1] or "stream" in t[1] or "operator bool" in t[1]):
                out.append(n)
                break
        else:
            v = X.kids(n)
            if v and X.mentions(v[0], lambda x: x["k"] in ("CallExpr", "CXXMemberCallExpr") and x.get("cq", "").endswith("::error")):
                out.append(n)
            elif v and X.mentions(v[0], lambda x: x["k"] == "DeclRefExpr" and x.get("n", "").endswith("_ERROR")):
                out.append(n)
    return out


WITNESS_NEG = r'''
#include "colvarmodule.h"
#include "colvars_memstream.h"
#include <string>
#include <vector>
struct has_virtual { virtual ~has_virtual() {} int x; };
void w1(cvm::memory_stream &os, std::vector<std::string> const &v) { os << v; }         // expect-error
void w2(cvm::memory_stream &os, has_virtual const &h) { os << h; }                     // expect-error
void r1(cvm::memory_stream &is, std::vector<std::string> &v) { is >> v; }               // expect-error
void r2(cvm::memory_stream &is, has_virtual &h) { is >> h; }                           // expect-error
'''

WITNESS_POS = r'''
#include "colvarmodule.h"
#include "colvartypes.h"
#include "colvars_memstream.h"
#include <vector>
void ok(cvm::memory_stream &s, int &i, size_t &n, double &d, long long &l, cvm::rvector &r,
        std::vector<double> &vd, std::vector<int> &vi, std::string &str) {
  s << i << n << d << l << r << vd << vi << str;
  s >> i >> n >> d >> l >> r >> vd >> vi >> str;
}
'''


def r5(F, rep):
    rep.rule("C11-R5", "compile-fail witness: streaming a non-trivially-copyable type through memory_stream is rejected "
                       "by the library's static_assert; the positive witness (types the library uses) compiles")
    root = repo_root()
    flags = ["-std=c++11", "-fsyntax-only", "-I" + os.path.join(root, "src"), "-resource-dir", RESOURCE_DIR,
             "-ferror-limit=0", "-Wno-everything"]
    with tempfile.TemporaryDirectory(prefix="cvw") as td:
        neg = os.path.join(td, "neg.cc")
        pos = os.path.join(td, "pos.cc")
        open(neg, "w").write(WITNESS_NEG)
        open(pos, "w").write(WITNESS_POS)
        p = subprocess.run(["clang++"] + flags + [pos], capture_output=True, text=True)
        rep.add("C11-R5", "witness|positive", os.path.join(root, "src/colvars_memstream.h"),
                "positive witness (int, size_t, double, long long, rvector, vector<double>, vector<int>, string) compiles",
                p.returncode == 0, detail=p.stderr[-600:])
        n = subprocess.run(["clang++"] + flags + [neg], capture_output=True, text=True)
        errs = n.stderr.count("Cannot use")
        want = {"write_vector() on complex type": "vector<string> write", "write_object() on complex type": "virtual struct write",
                "read_vector() on complex type": "vector<string> read", "read_object() on complex type": "virtual struct read"}
        for msg, what in want.items():
            rep.add("C11-R5", "witness|negative|" + what, os.path.join(root, "src/colvars_memstream.h"),
                    "static_assert rejects %s" % what, ("Cannot use " + msg) in n.stderr,
                    detail="expected the diagnostic `Cannot use %s`; compiler said: %s" % (msg, n.stderr[-300:] if errs == 0 else "%d static_assert errors" % errs))


def r6(F, rep):
    rep.rule("C11-R6", "in state readers, a token that does not match the expected brace or key leads to an error "
                       "signal (raise_error_rewind / cvm::error / setstate(failbit)) on every path to the exit")
    signal = lambda x: x["k"] in ("CallExpr", "CXXMemberCallExpr") and (
        x.get("cq", "").split("::")[-1] in ("raise_error_rewind", "error", "setstate"))
    n = 0
    for f in F.funcs.values():
        if "/src/" not in f.file or not (f.name.startswith("read_state") or f.name.startswith("read_restart")):
            continue
        if not f.cfg.ok:
            continue
        res = X.const_locals(f)
        pkeys = {"%s#%s" % (p["n"], p["d"]) for p in f.params if "basic_string" in f.typestr(p["t"])}
        sigs = [x for x in f.walk() if signal(x)]
        for bid, cid in f.cfg.cond_blocks():
            cn = f.nodes[cid]
            for idx, pol in ((0, True), (1, False)):
                fs = C.facts(f, cn, pol, res)
                hit = None
                for t in fs:
                    if t[0] == "cmp" and t[1] == "!=":
                        for side in (t[2], t[3]):
                            if side in ("'{'", "'}'") or side in pkeys:
                                hit = t
                if not hit:
                    continue
                n += 1
                succ = f.cfg.blocks[bid]["s"][idx]
                # can the exit be reached from that successor without passing a signal?
                avoid = {f.cfg.block_of(s)[0] for s in sigs if f.cfg.block_of(s)}
                seen, stack, leak = set(), [succ], False
                while stack:
                    b = stack.pop()
                    if b is None or b in seen:
                        continue
                    seen.add(b)
                    if b in avoid:
                        continue
                    if b == f.cfg.exit:
                        leak = True
                        break
                    stack.extend(f.cfg.succ.get(b, ()))
                rep.add("C11-R6", "%s|%s|%s" % (f.q, hit[2], hit[3]), f.loc(cn),
                        "mismatch `%s != %s` %s" % (X.re_strip(hit[2]), X.re_strip(hit[3]),
                                                    "reaches the exit without an error signal" if leak else "always signals an error"),
                        not leak, detail="a state block cut before its closing brace / with a wrong section key would be accepted",
                        func=f.q)
    rep.count("token_mismatch_edges", n)


def r7(F, rep):
    from . import rules_c10, callgraph
    cg = callgraph.get(F)
    roots = [f.m for f in F.funcs.values() if f.name.startswith("read_state") or f.name in (
        "setup_input", "read_restart", "read_raw", "read_multicol")]
    reach = cg.reachable(roots)
    r = rules_c10.R5(F, rep, rid="C11-R7", only_funcs=reach)
    r.text = "C10-R5 restricted to code reachable from the state readers: a malformed state cannot raise an exception that leaves the library"
    r.run()


def r8(F, rep):
    rep.rule("C11-R8", "publish after close: where a function writes a file through proxy->output_stream(T) and then renames T "
                       "onto another name, close_output_stream(T) lies on every path from the open to the rename -- a rename "
                       "before the close publishes a file whose contents are still in the stream buffer (a crash there leaves "
                       "an empty or truncated state and no previous generation)")
    n = 0
    for f in F.funcs.values():
        if "/src/" not in f.file or f.body is None or f.cls == "colvarproxy_io":
            continue
        res = X.const_locals(f)
        for r in X.calls(f):
            if X.callee_name(r) != "rename_file" or len(X.call_args(r)) < 2:
                continue
            src = X.key(X.call_args(r)[0], f)
            opens = [c for c in X.calls(f) if X.callee_name(c) == "output_stream" and X.call_args(c) and X.key(X.call_args(c)[0], f) == src]
            if not opens:
                continue
            n += 1
            closes = [c for c in X.calls(f) if X.callee_name(c) == "close_output_stream" and X.call_args(c) and X.key(X.call_args(c)[0], f) == src]
            ok = bool(closes) and all(not f.cfg.can_reach(o, r, avoiding=closes) for o in opens)
            rep.add("C11-R8", "%s|%s" % (f.q, X.re_strip(src)), f.loc(r), "%s renames `%s` onto `%s`; its stream is closed on every path from output_stream() to the rename: %s" % (
                f.q, X.re_strip(src), X.re_strip(X.key(X.call_args(r)[1], f)), ok), ok,
                detail="between the rename and the close the final name holds only what the stream has flushed so far", func=f.q)
            dst = X.key(X.call_args(r)[1], f)
            gone = [c for c in X.calls(f) if X.callee_name(c) in ("remove_file", "output_stream") and X.call_args(c) and
                    X.key(X.call_args(c)[0], f) == dst and f.cfg.can_reach(c, r)]
            rep.add("C11-R8", "%s|%s|kept" % (f.q, X.re_strip(dst)), f.loc(gone[0] if gone else r),
                    "%s: the previous `%s` %s" % (f.q, X.re_strip(dst), "is removed or reopened for writing BEFORE the new one is renamed onto it" if gone else
                                                  "is neither removed nor reopened before the rename replaces it"), not gone,
                    detail="between that call and the rename no complete generation of the file exists: a crash there loses the state", func=f.q)
    if n < 1:
        raise AnalysisBroken("C11-R8: no write-then-rename sequence found (colvarbias_meta::write_replica_state_file expected)")


def r9(F, rep):
    rep.rule("C11-R9", "a count read from a state or data stream does not size an allocation unchecked: in the reader functions, an "
                       "integer local that is filled by extraction (is >> n, or passed by reference to a helper that extracts) "
                       "and then used as the argument of resize / reserve / assign is bounded from above by a dominating "
                       "comparison first (== expected, <= limit): a damaged count would otherwise allocate, and then walk, as "
                       "many elements as its bytes happen to say")
    n = 0
    for f in F.funcs.values():
        if "/src/" not in f.file or f.body is None:
            continue
        if not any(k in (f.name or "") for k in ("read_state", "read_raw", "read_restart", "read_hill", "read_multicol", "set_state", "read_replica")):
            continue
        ints = {d["d"]: d for d in f.walk() if d["k"] == "VarDecl" and d.get("st") == "local" and X.is_int_type(f.typestr(d.get("t")))}
        if not ints:
            continue
        filled = set()
        for c in f.walk():
            if c["k"] in ("CallExpr", "CXXMemberCallExpr", "CXXOperatorCallExpr"):
                for i, a in enumerate(X.call_args(c)):
                    sa = X.strip(a)
                    if sa["k"] == "DeclRefExpr" and sa.get("d") in ints and (i in (c.get("refargs") or []) or (c["k"] == "CXXOperatorCallExpr" and c.get("op") == ">>" and i == 1)):
                        filled.add(sa["d"])
        seen = set()
        res = X.const_locals(f)
        for c in X.calls(f):
            if c["k"] != "CXXMemberCallExpr" or X.callee_name(c) not in ("resize", "reserve", "assign") or not X.call_args(c):
                continue
            for m in f.walk(X.call_args(c)[0]):
                if m["k"] != "DeclRefExpr" or m.get("d") not in filled:
                    continue
                key = (f.q.split("<")[0], ints[m["d"]]["n"], X.re_strip(X.key(X.receiver(c), f)) if X.receiver(c) is not None else "")
                if key in seen:
                    continue
                seen.add(key)
                n += 1
                nk = X.key(m, f, res)
                facts, _ = C.guard_facts(f, c, res)
                ok = any(t[0] == "eq" and nk in (t[1], t[2]) or
                         (t[0] == "cmp" and ((t[1] in ("<", "<=", "==") and t[2] == nk) or (t[1] in (">", ">=") and t[3] == nk))) for t in facts)
                rep.add("C11-R9", "%s|%s|%s" % key, f.loc(c), "%s sizes `%s` with the extracted count `%s`; an upper bound on it dominates the allocation: %s" % (
                    f.q, key[2], key[1], ok), ok,
                    detail="a flipped high byte in the count makes the reader allocate and loop over millions of elements before it notices that the data ended", func=f.q)
    if n < 1:
        raise AnalysisBroken("C11-R9: no allocation sized by an extracted count found in the readers (read_multicol expected)")


def run(F, rep, tier):
    r9(F, rep)
    r8(F, rep)
    r6(F, rep)
    r7(F, rep)
    r1(F, rep)
    r2(F, rep)
    r3_r4(F, rep)
    r5(F, rep)
