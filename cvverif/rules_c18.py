"""C18  Distances, gradients and wrapping of variable values form a consistent metric.

R1  no switch over colvarvalue::Type silently ignores a concrete type: each of the seven concrete
    enumerators is named explicitly or falls into a default that raises (undef_op / cvm::error)
R2  component classes with a non-scalar value type override dist2, dist2_lgrad, dist2_rgrad and wrap;
    scalar classes derived from them override all four back
R3  the periodic-image expression agrees between cvc::dist2, dist2_lgrad, dist2_rgrad, wrap
R4  sibling operations support the same set of value types (+=/-=, *=//=, dist2/dist2_grad, ...)
"""
from . import expr as X
from . import cond as C
from .facts import AnalysisBroken

TYPE = "colvarvalue::Type"


def concrete(F):
    e = F.enums.get(TYPE)
    if not e:
        raise AnalysisBroken("enum colvarvalue::Type not found")
    return {v: n for n, v in e["items"] if n not in ("type_notset", "type_all")}


def switch_groups(f, sw):
    """[(labels, statements)] of a switch body; nested `case a: case b: stmt` is flattened and
    fall-through without statements is merged."""
    body = sw["c"][1]
    items = X.kids(body) if body["k"] == "CompoundStmt" else [body]
    res, labels, stmts = [], [], []

    def flat(st):
        ls = []
        while st is not None and st["k"] in ("CaseStmt", "DefaultStmt"):
            ls.append(st.get("v") if st["k"] == "CaseStmt" else "default")
            st = st["c"][-1] if st.get("c") else None
        return ls, st
    for st in items:
        if st["k"] in ("CaseStmt", "DefaultStmt"):
            ls, first = flat(st)
            if stmts and any(s is not None for s in stmts):
                # previous group ended (break/return) or falls through with code: close it
                res.append((labels, stmts))
                last = [s for s in stmts if s is not None][-1]
                fall = last["k"] not in ("BreakStmt", "ReturnStmt")
                labels = list(labels) if fall else []
                stmts = []
            labels = labels + ls
            stmts.append(first)
        else:
            stmts.append(st)
    if labels:
        res.append((labels, stmts))
    return res


def is_raise(f, s):
    s0 = s
    if s is None:
        return False
    s = X.strip(s)
    if s["k"] in ("CXXMemberCallExpr", "CallExpr"):
        return X.callee_name(s) in ("undef_op",) or s.get("cq") in ("colvarmodule::error",)
    if s["k"] == "ReturnStmt" and X.kids(s):
        return is_raise(f, X.kids(s)[0])
    return False


def supported_sets(f, sw):
    sup, unsup, named = set(), set(), set()
    for labels, stmts in switch_groups(f, sw):
        real = [s for s in stmts if s is not None and s["k"] not in ("BreakStmt", "NullStmt")]
        # a group is "unsupported" when all it does is raise (and maybe return/break)
        bad = bool(real) and all(is_raise(f, s) or (s["k"] == "ReturnStmt" and not X.kids(s)) for s in real) and any(
            is_raise(f, s) for s in real)
        for l in labels:
            named.add(l)
            (unsup if bad else sup).add(l)
    return sup, unsup, named


def type_switches(F):
    for f in F.funcs.values():
        if "/src/" not in f.file:
            continue
        for n in f.walk():
            if n["k"] == "SwitchStmt" and TYPE in f.type(X.strip(n["c"][0], explicit=False)):
                yield f, n


def r1(F, rep):
    rep.rule("C18-R1", "no switch over colvarvalue::Type silently ignores a concrete value type: every concrete "
                       "enumerator is named by a case label, or the default branch raises")
    conc = concrete(F)
    seen = {}
    for f, sw in type_switches(F):
        sup, unsup, named = supported_sets(f, sw)
        missing = [conc[v] for v in sorted(conc) if v not in named]
        default_raises = "default" in unsup
        has_default = "default" in named
        ok = not missing or default_raises
        key = "%s|%s" % (f.m, X.text(sw["c"][0], f))
        seen[key] = (ok, f.loc(sw),
                     "switch in %s: %s" % (f.q, "all 7 concrete types named" if not missing else
                                           "%s not named; default %s" % (", ".join(missing),
                                                                       "raises" if default_raises else
                                                                       ("is SILENT" if has_default else "is ABSENT"))),
                     "a value of that type would be silently treated as nothing", f.q)
    if len(seen) < 30:
        raise AnalysisBroken("only %d switches over colvarvalue::Type found" % len(seen))
    for k, (ok, loc, what, detail, fq) in seen.items():
        rep.add("C18-R1", k, loc, what, ok, detail=detail, func=fq)


SIBLINGS = [
    ("additive", ["colvarvalue::operator+=", "colvarvalue::operator-=", "operator+|colvarvalue,colvarvalue",
                  "operator-|colvarvalue,colvarvalue"]),
    ("scaling", ["colvarvalue::operator*=", "colvarvalue::operator/=", "operator*|double,colvarvalue",
                 "operator/|colvarvalue,double"]),
    ("metric", ["colvarvalue::dist2", "colvarvalue::dist2_grad"]),
    ("simple-string", ["colvarvalue::to_simple_string", "colvarvalue::from_simple_string"]),
    ("stream", ["colvarvalue::write_to_stream_template_", "colvarvalue::read_from_stream_template_"]),
]


def find_sibling(F, spec):
    q, _, sig = spec.partition("|")
    out = []
    for f in F.func_q(q):
        if sig:
            ptypes = [f.typestr(p["t"]) for p in f.params]
            want = sig.split(",")
            if len(ptypes) != len(want) or not all(w in t for w, t in zip(want, ptypes)):
                continue
        out.append(f)
    return out


def r4(F, rep):
    rep.rule("C18-R4", "sibling operations on colvarvalue support the same set of value types: +=, -=, +, - ; "
                       "*=, /=, scalar*x, x/scalar ; dist2, dist2_grad ; to/from_simple_string ; write/read stream")
    conc = concrete(F)
    for fam, specs in SIBLINGS:
        sets = {}
        for spec in specs:
            fs = find_sibling(F, spec)
            if not fs:
                raise AnalysisBroken("sibling %s not found" % spec)
            for f in fs:
                sws = [n for n in f.walk() if n["k"] == "SwitchStmt" and TYPE in f.type(X.strip(n["c"][0], explicit=False))]
                if not sws:
                    continue
                sup, unsup, named = supported_sets(f, sws[0])
                sets[spec + "|" + f.m] = (f, sws[0], {v for v in sup if v in conc})
        if len(sets) < 2:
            raise AnalysisBroken("sibling family %s has fewer than 2 members with a type switch" % fam)
        union = set().union(*[s for _, _, s in sets.values()])
        for k, (f, sw, s) in sets.items():
            miss = [conc[v] for v in sorted(union - s)]
            rep.add("C18-R4", "%s|%s" % (fam, k), f.loc(sw),
                    "%s (%s family) supports %s" % (f.q, fam, "the same types as its siblings" if not miss else
                                                    "everything its siblings do EXCEPT " + ", ".join(miss)),
                    not miss, detail="an operation available through one spelling raises 'undefined operation' through the other",
                    func=f.q)


NONSCALAR = ("type_3vector", "type_unit3vector", "type_quaternion", "type_vector", "type_unit3vectorderiv",
             "type_quaternionderiv")
METRIC = ("dist2", "dist2_lgrad", "dist2_rgrad", "wrap")


def own_value_types(F, cls):
    out = set()
    for f in F.funcs.values():
        if f.cls == cls and (f.ctor or f.name == "init"):
            for c in X.calls(f):
                if c.get("cq") == "colvarvalue::type" and X.call_args(c):
                    r = X.receiver(c)
                    a = X.strip(X.call_args(c)[0])
                    if r is not None and X.key(r, f) == "this.x" and a["k"] == "DeclRefExpr":
                        out.add(a["n"])
    return out


def r2(F, rep):
    rep.rule("C18-R2", "a component class whose value is not a scalar overrides dist2, dist2_lgrad, dist2_rgrad and wrap "
                       "(the base versions read real_value only); a scalar class derived from a non-scalar one "
                       "overrides all four again")
    subs = sorted(F.subclasses("colvar::cvc", strict=True))
    n = 0
    for c in subs:
        own = own_value_types(F, c)
        chain = F.bases(c)
        # effective type: nearest class in the chain that sets one
        eff, setter = None, None
        for b in chain:
            t = own_value_types(F, b)
            if t:
                eff, setter = t, b
                break
        if not eff:
            continue
        nonscalar = any(t in NONSCALAR for t in eff)
        inherited_nonscalar = any(any(t in NONSCALAR for t in own_value_types(F, b)) for b in chain[1:])
        if not nonscalar and not inherited_nonscalar:
            continue
        n += 1
        for m in METRIC:
            fs = F.find_method(c, m)
            definer = fs[0].cls if fs else None
            if nonscalar:
                ok = definer is not None and definer != "colvar::cvc"
                what = "%s (value %s): %s is %s" % (c, "/".join(sorted(eff)), m,
                                                     "overridden in %s" % definer if ok else "the scalar base version")
            else:
                # scalar again: the definer must not be a class whose own type is non-scalar
                dt = own_value_types(F, definer) if definer else set()
                ok = definer is not None and not any(t in NONSCALAR for t in dt) and definer != "colvar::cvc" or \
                    (definer is not None and definer != "colvar::cvc" and not any(t in NONSCALAR for t in dt))
                what = "%s (scalar, derived from a non-scalar class): %s comes from %s" % (c, m, definer)
            rep.add("C18-R2", "%s|%s" % (c, m), fs[0].loc() if fs else "", what, ok,
                    detail="restraints and hills would use a distance that ignores the value's manifold", func="%s::%s" % (c, m))
    rep.count("nonscalar_component_classes", n)


def r3(F, rep):
    rep.rule("C18-R3", "cvc::dist2, dist2_lgrad, dist2_rgrad and wrap use the same periodic-image expression "
                       "(shift by floor(diff/period + 0.5) * period under is_enabled(f_cvc_periodic))")
    fs = {}
    for m in METRIC:
        g = F.func_q("colvar::cvc::" + m)
        if not g:
            raise AnalysisBroken("colvar::cvc::%s not found" % m)
        fs[m] = g[0]
    shifts = {}
    for m, f in fs.items():
        res = X.const_locals(f)
        ks = []
        for c in X.calls(f):
            if X.callee_name(c) == "floor":
                ks.append(X.key(X.call_args(c)[0], f, res))
        per = X.mentions(f.body, lambda x: x["k"] == "DeclRefExpr" and x.get("n") == "f_cvc_periodic")
        shifts[m] = (ks, per)
    import re
    norm = {}
    for m, (ks, per) in shifts.items():
        # the image count has the shape floor(<diff>/period + 0.5): compare the shape with operand names erased
        norm[m] = [re.sub(r"#\d+", "", k) for k in ks]
    base = None
    for m in METRIC:
        ks, per = shifts[m]
        # a distance function may delegate to another distance function, never to wrap(): wrap() folds a VALUE around
        # wrap_center, a distance folds a DIFFERENCE around zero
        deleg = [c for c in X.calls(fs[m]) if X.callee_name(c) in METRIC and X.callee_name(c) != m and
                 (X.callee_name(c) != "wrap" or m == "wrap")]
        if deleg and not ks:
            rep.add("C18-R3", "cvc::%s" % m, fs[m].loc(), "cvc::%s delegates to cvc::%s" % (m, X.callee_name(deleg[0])), True, func=fs[m].q)
            continue
        shape = ["+ 0.5" in k or "0.5 +" in k for k in norm[m]]
        ok = per and len(ks) >= 1 and all(shape) and all("this.period" in k for k in norm[m])
        # centre of the folding interval: zero for differences, wrap_center for values
        centred = [("wrap_center" in k) for k in norm[m]]
        ok = ok and (all(centred) if m == "wrap" else not any(centred))
        rep.add("C18-R3", "cvc::%s" % m, fs[m].loc(), "cvc::%s: %s" % (m, "nearest-image shift floor(d/period + 0.5) under f_cvc_periodic"
                                                                       if ok else "periodic image expression differs: %s" % norm[m]),
                ok, func=fs[m].q)


def r3b(F, rep):
    """Variable-level distance functions (scripted / custom-function periodic variables fold the difference themselves)."""
    n = 0
    for m in ("dist2", "dist2_lgrad", "dist2_rgrad"):
        for f in F.func_q("colvar::" + m):
            n += 1
            uses = [x for x in f.walk() if x["k"] == "MemberExpr" and x.get("n") == "wrap_center"]
            per = [x for x in f.walk() if x["k"] == "MemberExpr" and x.get("n") == "period"]
            rep.add("C18-R3", "colvar::%s|centre" % m, f.loc(uses[0]) if uses else f.loc(),
                    "colvar::%s folds the difference of a periodic scripted variable using `period` (%d uses) and %s" % (
                        m, len(per), "NOT wrap_center" if not uses else "wrap_center (%d uses)" % len(uses)), bool(per) and not uses,
                    detail="a difference is folded around zero; folding it around wrap_center makes the distance asymmetric and not minimal", func=f.q)
    if n < 3:
        raise AnalysisBroken("colvar::dist2 / dist2_lgrad / dist2_rgrad not found")
    # the three dispatchers choose their implementation under the same conditions
    disp = {}
    for m in ("dist2", "dist2_lgrad", "dist2_rgrad"):
        for f in F.func_q("colvar::" + m):
            res = X.const_locals(f)
            conds = []
            for x in f.walk():
                if x["k"] == "IfStmt":
                    cs = x["c"][1:] if len(x["c"]) == 4 else x["c"]
                    if cs and cs[0] is not None:
                        conds.append(X.re_strip(X.key(cs[0], f, res)))
            disp[m] = (f, conds)
    ref = disp["dist2"][1]
    if len(ref) < 2:
        raise AnalysisBroken("colvar::dist2: dispatch conditions not found")
    # every variable that can be declared periodic from its components uses the component's metric
    init = F.one("colvar::init")
    ires = X.const_locals(init)
    gfeat = set()
    for c in X.calls(init):
        if X.callee_name(c) == "set_enabled" and X.call_args(c) and "f_cv_periodic" in X.key(X.call_args(c)[0], init):
            facts, _ = C.guard_facts(init, c, ires)
            for t in facts:
                if t[0] == "true" and "is_enabled(" in t[1] and "this.is_enabled" in t[1]:
                    gfeat.add(X.re_strip(t[1]))
    if not gfeat:
        raise AnalysisBroken("colvar::init: the condition under which f_cv_periodic is set from the components was not found")
    for m in ("dist2", "dist2_lgrad", "dist2_rgrad"):
        f, conds = disp[m]
        deleg = None
        for x in f.walk():
            if x["k"] == "IfStmt":
                cs = x["c"][1:] if len(x["c"]) == 4 else x["c"]
                if len(cs) >= 2 and cs[1] is not None and any(X.callee_name(c) == m and X.receiver(c) is not None and "cvcs" in X.key(X.receiver(c), f) for c in X.calls(f, cs[1])):
                    deleg = X.re_strip(X.key(cs[0], f, X.const_locals(f)))
        ok = deleg is not None and deleg in gfeat
        rep.add("C18-R3", "colvar::%s|periodic-implies-component-metric" % m, f.loc(), "colvar::%s hands the metric to its first component under `%s`; colvar::init() declares a variable periodic under %s" % (
            m, deleg, sorted(gfeat)), ok,
            detail="a variable flagged periodic for which the delegation does not happen measures distances with the plain, non-periodic difference", func=f.q)
    for m in ("dist2_lgrad", "dist2_rgrad"):
        f, conds = disp[m]
        diff = [c for c in conds if c not in ref] + [c for c in ref if c not in conds]
        rep.add("C18-R3", "colvar::%s|dispatch" % m, f.loc(), "colvar::%s selects its implementation under the same %d conditions as colvar::dist2%s" % (
            m, len(ref), "" if not diff else "; DIFFERENT: " + "; ".join(d[:70] for d in diff)), not diff,
            detail="where the two disagree the gradient returned is not the derivative of the distance returned (periodic component "
                   "metric on one side, plain difference on the other)", func=f.q)


def r5(F, rep):
    rep.rule("C18-R5", "the variable-level `period` and `wrap_center` are copies taken from the first component at initialisation "
                       "(script commands can change the component's afterwards): outside init() they enter arithmetic only for "
                       "scripted / custom-function variables, whose components do not define the periodicity; for every other "
                       "variable wrapping and distances are delegated to the component")
    from .rules_c03 import all_guards
    n = 0
    for f in F.funcs.values():
        if f.cls != "colvar" or f.ctor or f.name in ("init", "init_grid_parameters", "init_extended_Lagrangian", "init_custom_function") or "/src/" not in f.file or f.body is None:
            continue
        res = X.const_locals(f)
        for m in f.walk():
            if m["k"] != "MemberExpr" or m.get("q") not in ("colvar::period", "colvar::wrap_center"):
                continue
            if X.key(m, f) not in ("this.period", "this.wrap_center"):
                continue
            # arithmetic use (not a bare comparison with a literal)
            par = f.parent(m)
            while par is not None and par["k"] in ("ImplicitCastExpr", "ParenExpr"):
                par = f.parent(par)
            if par is not None and par["k"] == "BinaryOperator" and par.get("op") in (">", "<", "==", "!=", ">=", "<=") and \
                    any(C._lit(X.strip(k)) is not None for k in X.kids(par)):
                continue
            n += 1
            ok = False
            for cn, pol in all_guards(f, m):
                k = X.key(cn, f, res)
                if pol and ("f_cv_scripted" in k or "f_cv_custom_function" in k):
                    ok = True
            rep.add("C18-R5", "%s|%s" % (f.q, m.get("n")), f.loc(m), "%s uses the variable-level `%s` %s" % (
                f.q, m.get("n"), "only for scripted / custom-function variables" if ok else "for EVERY variable (a copy that modifycvcs does not update)"), ok,
                detail="after `cv colvar <name> modifycvcs {wrapAround c}` the component folds around c and the variable around the old centre", func=f.q)
    if n < 6:
        raise AnalysisBroken("C18-R5: only %d arithmetic uses of colvar::period / wrap_center found" % n)


def r7(F, rep):
    rep.rule("C18-R7", "the minimum image is taken along lattice vectors: in colvarproxy_system::position_distance() each image count "
                       "(the local computed from reciprocal_cell_K) multiplies components of unit_cell_K only, and the component "
                       "of unit_cell_K that is subtracted from a component of the difference is the same component -- the "
                       "subtracted vector is n_x a + n_y b + n_z c, a lattice vector, also for non-orthorhombic cells")
    from .rules_c10 import lvalue_writes
    f = F.one("colvarproxy_system::position_distance")
    shift = {}
    for v in f.walk():
        if v["k"] == "VarDecl" and v.get("st") == "local" and X.kids(v):
            ks = {m["n"][-1] for m in f.walk(X.kids(v)[0]) if m["k"] == "MemberExpr" and (m.get("n") or "").startswith("reciprocal_cell_")}
            if len(ks) == 1:
                shift[v["d"]] = ks.pop()
    # the three counts may also be packed into one vector local: its components map to the cell vectors in argument order
    vshift = {}
    for v in f.walk():
        if v["k"] == "VarDecl" and v.get("st") == "local" and X.kids(v) and v["d"] not in shift:
            init = X.strip(X.kids(v)[0])
            args = X.call_args(init) if init["k"] in ("CXXConstructExpr", "CXXTemporaryObjectExpr") else []
            ks = []
            for a in args:
                mm = [m["n"][-1] for m in f.walk(a) if m["k"] == "MemberExpr" and (m.get("n") or "").startswith("reciprocal_cell_")]
                ks.append(mm[0] if len(set(mm)) == 1 else None)
            if len(ks) == 3 and all(ks):
                vshift[v["d"]] = dict(zip(("x", "y", "z"), ks))
    if len(shift) < 3 and not vshift:
        raise AnalysisBroken("C18-R7: the three image counts computed from reciprocal_cell_* were not found")

    def terms(n, out):
        n = X.strip(n)
        if n["k"] == "BinaryOperator" and n.get("op") == "+":
            for k in X.kids(n):
                terms(k, out)
        elif n["k"] == "CXXOperatorCallExpr" and n.get("op") == "+" and len(X.call_args(n)) == 2:
            for k in X.call_args(n):
                terms(k, out)
        else:
            out.append(n)
    n = 0
    for w, t in lvalue_writes(f):
        tk = X.key(t, f)
        if not tk.startswith("diff") or w.get("op") not in ("-=",):
            continue
        comp = tk.split(".")[-1] if "." in tk else None
        rhs = X.kids(w)[1] if w["k"] in ("CompoundAssignOperator", "BinaryOperator") else X.call_args(w)[1]
        ts = []
        terms(rhs, ts)
        for term in ts:
            cells = [m for m in f.walk(term) if m["k"] == "MemberExpr" and (m.get("n") or "").startswith("unit_cell_")]
            if not cells:
                continue
            n += 1
            used = {shift[x["d"]] for x in f.walk(term) if x["k"] == "DeclRefExpr" and x.get("d") in shift}
            for x in f.walk(term):
                if x["k"] == "DeclRefExpr" and x.get("d") in vshift:
                    par = f.parent(x)
                    while par is not None and par["k"] in ("ImplicitCastExpr", "ParenExpr"):
                        par = f.parent(par)
                    if par is not None and par["k"] == "MemberExpr" and par.get("n") in ("x", "y", "z"):
                        used.add(vshift[x["d"]][par["n"]])
                    else:
                        used |= set(vshift[x["d"]].values())     # the whole vector of counts (a dot product)
            cellk = {m["n"][-1] for m in cells}
            comps = set()
            for m in f.walk(term):
                if m["k"] == "MemberExpr" and m.get("n") in ("x", "y", "z") and X.kids(m) and X.strip(X.kids(m)[0])["k"] == "MemberExpr" and \
                        (X.strip(X.kids(m)[0]).get("n") or "").startswith("unit_cell_"):
                    comps.add(m["n"])
            ok = used == cellk and len(cellk) == 1 and (comp is None or comps == {comp})
            rep.add("C18-R7", "position_distance|%s|%s" % (comp or "vector", X.re_strip(X.key(term, f))[:50]), f.loc(w),
                    "diff%s -= ... `%s`: image count along %s multiplies unit_cell_%s%s" % (
                        "." + comp if comp else "", X.text(term, f)[:50], sorted(used) or "?", sorted(cellk), (" component " + ",".join(sorted(comps))) if comps else ""), ok,
                    detail="the vector subtracted from the difference is not a lattice vector unless the cell matrix is symmetric: distances of 3-vector "
                           "values change when an atom is moved by a whole cell vector", func=f.q)
    if n < 3:
        rep.add("C18-R7", "position_distance|terms", f.loc(), "position_distance() subtracts %d recognisable image terms from the difference (3 or 9 expected)" % n, False,
                detail="the image shift is no longer written as a sum of image counts times cell vectors", func=f.q)


def r6(F, rep):
    from .rules_c20 import self_default
    self_default(F, rep, "C18-R6", only=("period", "wrap_center"))


def r8(F, rep, rid="C18-R8"):
    rep.rule(rid, "distance and gradient choose the image by the same tests: in every class that defines dist2() and a gradient "
                  "of it (dist2_grad / dist2_lgrad / dist2_rgrad), each branch condition of dist2() (if and ?:, constant locals "
                  "resolved to their initialisers) is also a branch condition of the gradient -- unless the gradient only "
                  "forwards to a sibling gradient; a gradient that picks the other image (q vs -q, one period off) is the "
                  "derivative of a different distance")

    def conds(f):
        res = X.const_locals(f)
        out = {}
        for n in f.walk():
            if n["k"] == "IfStmt":
                cs = n["c"]
                cn = cs[1] if len(cs) == 4 else cs[0]
            elif n["k"] == "ConditionalOperator":
                cn = n["c"][0]
            else:
                continue
            if cn is not None:
                # locals and parameters are identified by order of appearance, not by name
                from .rules_c01 import _norm_locals
                out.setdefault(X.re_strip(_norm_locals(X.key(cn, f, res))[0]), cn)
        return out
    by = {}
    for f in F.funcs.values():
        if f.body is None or not f.cls or "/src/" not in f.file:
            continue
        if f.name in ("dist2", "dist2_grad", "dist2_lgrad", "dist2_rgrad"):
            by.setdefault(f.cls, {}).setdefault(f.name, []).append(f)
    n = 0
    for cls, d in sorted(by.items()):
        for f in d.get("dist2", []):
            a = conds(f)
            if not a:
                continue
            for nm in ("dist2_grad", "dist2_lgrad", "dist2_rgrad"):
                for g in d.get(nm, []):
                    b = conds(g)
                    if not b and any(X.callee_name(c) in ("dist2_grad", "dist2_lgrad", "dist2_rgrad") for c in X.calls(g)):
                        continue
                    n += 1
                    miss = sorted(set(a) - set(b))
                    rep.add(rid, "%s|%s" % (cls, nm), g.loc(), "%s::%s %s" % (cls, nm, "branches on every condition dist2() branches on" if not miss else
                                                                          "does NOT branch on `%s`, which dist2() uses to choose the image" % miss[0][:90]), not miss,
                            detail="the force derived from the gradient pulls towards another image than the one whose distance is reported as the energy", func=g.q)
    if n < 4:
        raise AnalysisBroken("%s: only %d (dist2, gradient) pairs with branch conditions found" % (rid, n))


def _num_eval(f, n, var_pred, value, res):
    """Concrete value of an arithmetic/boolean expression in which every sub-expression accepted by var_pred has the
    given value; None if a construct is not understood."""
    n = X.strip(n)
    if var_pred(n):
        return value
    k = n["k"]
    if k == "DeclRefExpr" and res and n.get("d") in res:
        return _num_eval(f, res[n["d"]], var_pred, value, res)
    lit = C._lit(n)
    if lit is not None:
        return lit
    if k == "BinaryOperator":
        a = _num_eval(f, X.kids(n)[0], var_pred, value, res)
        b = _num_eval(f, X.kids(n)[1], var_pred, value, res)
        if a is None or b is None:
            return None
        op = n["op"]
        try:
            return {"+": lambda: a + b, "-": lambda: a - b, "*": lambda: a * b, "/": lambda: a / b,
                    "<": lambda: a < b, ">": lambda: a > b, "<=": lambda: a <= b, ">=": lambda: a >= b,
                    "==": lambda: a == b, "!=": lambda: a != b, "&&": lambda: bool(a) and bool(b), "||": lambda: bool(a) or bool(b)}[op]()
        except (KeyError, ZeroDivisionError):
            return None
    if k == "UnaryOperator" and n["op"] in ("-", "!", "+"):
        a = _num_eval(f, X.kids(n)[0], var_pred, value, res)
        if a is None:
            return None
        return -a if n["op"] == "-" else ((not a) if n["op"] == "!" else a)
    if k == "CallExpr" and X.callee_name(n) in ("fabs", "abs") and len(X.call_args(n)) == 1:
        a = _num_eval(f, X.call_args(n)[0], var_pred, value, res)
        return abs(a) if a is not None else None
    if k in ("CXXFunctionalCastExpr", "CStyleCastExpr", "CXXStaticCastExpr") and X.kids(n):
        return _num_eval(f, X.kids(n)[-1], var_pred, value, res)
    return None


def r9(F, rep, rid="C18-R9"):
    rep.rule(rid, "a difference of components keeps their metric: the conditions under which colvar::init() declares a variable "
                  "NOT homogeneous (the flag that lets it inherit period and wrap centre from its components) give the same "
                  "answer for a coefficient c and for -c -- evaluated for c = +1, -1 (homogeneous) and +0.5, -0.5, 2 (not) by "
                  "substituting the value for every read of the coefficient in the guarding condition")
    f = F.one("colvar::init")
    res = X.const_locals(f)
    from .rules_c03 import all_guards
    from .rules_c10 import lvalue_writes
    # the local that is handed to set_enabled(f_cv_homogeneous, V)
    flag = None
    for c in X.calls(f):
        if X.callee_name(c) == "set_enabled" and len(X.call_args(c)) == 2 and "f_cv_homogeneous" in X.key(X.call_args(c)[0], f):
            v = X.strip(X.call_args(c)[1])
            if v["k"] == "DeclRefExpr":
                flag = v.get("d")
    if flag is None:
        raise AnalysisBroken("%s: colvar::init() does not set f_cv_homogeneous from a local" % rid)
    is_c = lambda n: n["k"] == "MemberExpr" and n.get("n") == "sup_coeff"
    n = 0
    for w, t in lvalue_writes(f):
        ts = X.strip(t)
        if ts["k"] != "DeclRefExpr" or ts.get("d") != flag or w.get("op") != "=" or C._lit(X.kids(w)[1]) != 0:
            continue
        for cn, pol in all_guards(f, w):
            if not X.mentions(cn, is_c):
                continue
            n += 1
            vals = {}
            for c0 in (1.0, -1.0, 0.5, -0.5, 2.0):
                r = _num_eval(f, cn, is_c, c0, res)
                vals[c0] = None if r is None else (bool(r) == bool(pol))
            if any(v is None for v in vals.values()):
                raise AnalysisBroken("%s: the condition `%s` could not be evaluated" % (rid, X.re_strip(X.key(cn, f, res))[:80]))
            ok = vals[1.0] == vals[-1.0] and vals[0.5] == vals[-0.5] and not vals[1.0] and vals[0.5] and vals[2.0]
            rep.add(rid, "colvar::init|homogeneous", f.loc(w), "colvar::init() clears the homogeneous flag for coefficient c: %s" % (
                ", ".join("c=%g: %s" % (c0, "cleared" if vals[c0] else "kept") for c0 in (1.0, -1.0, 0.5, -0.5, 2.0))), ok,
                detail="a variable defined as a difference of periodic components (coefficient -1) would lose their period: distances across "
                       "the boundary are taken the long way round and wrap() does nothing", func=f.q)
    if n < 1:
        raise AnalysisBroken("%s: no assignment clearing the homogeneous flag under a test of the coefficient" % rid)


def run(F, rep, tier):
    r9(F, rep)
    r8(F, rep)
    r7(F, rep)
    r6(F, rep)
    r5(F, rep)
    r1(F, rep)
    r2(F, rep)
    r3(F, rep)
    r3b(F, rep)
    r4(F, rep)
