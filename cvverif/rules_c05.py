"""C05  The metadynamics bias is the sum of the hills deposited on schedule.

R1  add_hill is dominated by the schedule test, can_accumulate_data() and f_cvb_history_dependent
R2  calc_energy and calc_forces use the same decomposition: [index_ok ? grid : hills_off_grid] + new hills
R3  grid look-ups in the metadynamics code are bounds-guarded (index typestate)
R4  calc_hills_force's switch over the value type is exhaustive (see also C18-R1)
R5  projection hand-off: new_hills_begin = hills.end() follows every projection of the new hills
R6  the state writer tabulates all pending hills unconditionally before writing the grids
"""
from . import expr as X
from . import cond as C
from . import callgraph
from . import gridindex
from .facts import AnalysisBroken


def r1(F, rep):
    rep.rule("C05-R1", "a hill is deposited only on schedule and when eligible: add_hill() in update_bias() is dominated by "
                       "step_absolute() % new_hill_freq == 0, can_accumulate_data() and is_enabled(f_cvb_history_dependent)")
    f = F.one("colvarbias_meta::update_bias")
    res = X.const_locals(f)
    adds = [c for c in X.calls(f) if X.callee_name(c) == "add_hill"]
    if not adds:
        raise AnalysisBroken("update_bias: add_hill call not found")
    for i, c in enumerate(adds):
        facts, gs = C.guard_facts(f, c, res)
        sched = any(t[0] == "cmp" and t[1] == "==" and t[3] == "0" and "step_absolute() % this.new_hill_freq" in t[2] for t in facts)
        elig = ("true", "this.can_accumulate_data()") in facts
        hist = any(t[0] == "true" and "f_cvb_history_dependent" in t[1] for t in facts)
        for name, ok in (("schedule", sched), ("eligibility", elig), ("history-dependent", hist)):
            rep.add("C05-R1", "add_hill|%d|%s" % (i, name), f.loc(c), "add_hill() #%d is %sguarded by the %s test" % (
                i, "" if ok else "NOT ", name), ok, func=f.q)


def decomposition(F, f):
    """Terms of the metadynamics energy/force sum in f: set of (kind, guard on the grid-index boolean, range)."""
    res = X.const_locals(f)
    terms = []
    for c in X.calls(f):
        nm = X.callee_name(c)
        if nm == "value" and gridindex.is_grid_class(c.get("rc", "")):
            r = X.receiver(c)
            facts, gs = C.guard_facts(f, c, res)
            on_grid = any(t[0] == "true" and t[1].startswith("index_ok") for t in facts)
            loops = sum(1 for a in f.ancestors(c) if a["k"] == "ForStmt" and "replicas" in X.key(X.kids(a)[1], f))
            terms.append(("grid", on_grid, "replicas" if loops else "self"))
        elif nm in ("calc_hills", "calc_hills_force"):
            a = X.call_args(c)
            off = 1 if nm == "calc_hills_force" else 0
            first = X.re_strip(X.key(a[off], f, res)).split(".")[-1]
            last = X.re_strip(X.key(a[off + 1], f, res)).split(".")[-1]
            facts, gs = C.guard_facts(f, c, res)
            off_grid = any(t[0] == "false" and t[1].startswith("index_ok") for t in facts)
            loops = any(a2["k"] == "ForStmt" and "replicas" in X.key(X.kids(a2)[1], f) for a2 in f.ancestors(c))
            terms.append(("hills", "%s..%s" % (first, last), "off-grid only" if off_grid else "always", "replicas" if loops else "self"))
    return sorted(set(terms))


def r2(F, rep):
    rep.rule("C05-R2", "energy and force use the same decomposition of the bias: calc_energy() and calc_forces() both take "
                       "the tabulated grid when the bin is inside it, the off-grid hills otherwise, and always add the hills "
                       "not yet tabulated, over the same loop on replicas")
    e = F.one("colvarbias_meta::calc_energy")
    g = F.one("colvarbias_meta::calc_forces")
    de, dg = decomposition(F, e), decomposition(F, g)
    ok = de == dg and len(de) >= 3
    rep.add("C05-R2", "decomposition", e.loc(), "calc_energy terms %s ; calc_forces terms %s" % (de, dg), ok,
            detail="a term present in one and missing in the other makes the force differ from minus the energy gradient", func=e.q)
    # both compute the bin from the same grid and test it with index_ok before use
    for f in (e, g):
        res = X.const_locals(f)
        oks = [c for c in X.calls(f) if X.callee_name(c) == "index_ok"]
        rep.add("C05-R2", "%s|index_ok" % f.name, f.loc(), "%s tests index_ok() of the current bin (%d test(s))" % (f.q, len(oks)),
                len(oks) >= 1, func=f.q)


def r3(F, rep):
    rep.rule("C05-R3", "grid element accesses in the metadynamics code use a checked bin index (index typestate, see "
                       "cvverif/gridindex.py): dominated by index_ok() of that index, by a boolean derived from it, by a "
                       "clamp, or guarded by every caller")
    n = 0
    for f, c, K, ok, why in gridindex.sites(F, lambda f: (f.cls or "") == "colvarbias_meta"):
        n += 1
        rep.add("C05-R3", "%s|%s|%s" % (f.q, X.callee_name(c), X.re_strip(K)), f.loc(c),
                "%s(%s) in %s: %s" % (X.callee_name(c), X.re_strip(K), f.q, why), ok,
                detail="excursions of the variables beyond the grid boundaries would read or write outside the grid", func=f.q)
    if n < 5:
        raise AnalysisBroken("only %d grid accesses found in colvarbias_meta" % n)


def r5_r6(F, rep):
    rep.rule("C05-R5", "projection hand-off: every project_hills(new_hills_begin, hills.end(), ...) is followed by "
                       "new_hills_begin = hills.end(), so no hill is both tabulated and summed analytically")
    rep.rule("C05-R6", "the state writer tabulates all pending hills before writing the grids: write_state_data reaches "
                       "project_hills(new_hills_begin, ...) under no condition other than use_grids")
    cg = callgraph.get(F)
    n = 0
    for f in F.funcs.values():
        if f.cls != "colvarbias_meta" or not f.cfg.ok:
            continue
        res = X.const_locals(f)
        for c in X.calls(f):
            if X.callee_name(c) == "project_hills":
                a = X.call_args(c)
                if not a or "new_hills_begin" not in X.key(a[0], f, res):
                    continue
                n += 1
                recv_obj = X.key(a[0], f, res).rsplit("new_hills_begin", 1)[0]
                resets = [w for w in f.walk() if w["k"] in ("BinaryOperator", "CXXOperatorCallExpr") and w.get("op") == "="
                          and X.key((X.kids(w) if w["k"] == "BinaryOperator" else X.call_args(w))[0], f, res) == recv_obj + "new_hills_begin"]
                ok = any(f.cfg.can_reach(c, w) and not f.cfg.exits_from(c, avoiding=[w]) for w in resets)
                rep.add("C05-R5", "%s|%s" % (f.q, X.re_strip(recv_obj) or "this"), f.loc(c),
                        "projection of the new hills in %s is %s by new_hills_begin = hills.end()" % (f.q, "followed" if ok else "NOT followed"),
                        ok, func=f.q)
    if n < 2:
        raise AnalysisBroken("only %d projections of new hills found" % n)
    # R6
    ws = [f for f in F.funcs.values() if f.cls == "colvarbias_meta" and f.name in ("write_state_data_template_", "write_state_data")]
    tmpl = [f for f in ws if f.name == "write_state_data_template_"] or ws
    for f in tmpl:
        res = X.const_locals(f)
        found, why = flush_unconditional(F, f, res, 0)
        rep.add("C05-R6", "%s|%s" % (f.q, f.typestr(f.params[0]["t"])[:30] if f.params else ""), f.loc(),
                "%s: %s" % (f.q, why), found,
                detail="hills deposited since the last grid update would be missing from the saved state", func=f.q)


def flush_unconditional(F, f, res, depth):
    for c in X.calls(f):
        if X.callee_name(c) == "project_hills":
            a = X.call_args(c)
            if a and "new_hills_begin" in X.key(a[0], f, res):
                gs = [(X.re_strip(X.key(f.nodes[cid], f, res)), pol) for cid, pol in f.cfg.real_guards(c)]
                extra = [g for g in gs if g[0] not in ("this.use_grids",)]
                if not extra:
                    return True, "pending hills are projected whenever use_grids is on"
                return False, "pending hills are projected only under %s" % extra
    if depth < 2:
        for c in X.calls(f):
            g = F.funcs.get(c.get("callee"))
            if g is not None and g.cls == f.cls and g.name not in ("project_hills",) and any(
                    X.callee_name(x) == "project_hills" for x in X.calls(g)):
                gsc = [(X.re_strip(X.key(f.nodes[cid], f, res)), pol) for cid, pol in f.cfg.real_guards(c)]
                extra = [x for x in gsc if x[0] not in ("this.use_grids",)]
                ok, why = flush_unconditional(F, g, X.const_locals(g), depth + 1)
                if ok and not extra:
                    return True, why + " (through %s)" % g.q
                return False, "through %s: %s" % (g.q, why)
    return False, "no projection of the pending hills is reached"


def r4(F, rep):
    rep.rule("C05-R4", "colvarbias_meta::calc_hills_force names every concrete value type in its switch (no type falls "
                       "silently into the default)")
    from . import rules_c18
    conc = rules_c18.concrete(F)
    f = F.one("colvarbias_meta::calc_hills_force")
    sws = [n for n in f.walk() if n["k"] == "SwitchStmt"]
    if not sws:
        raise AnalysisBroken("calc_hills_force: switch not found")
    sup, unsup, named = rules_c18.supported_sets(f, sws[0])
    missing = [conc[v] for v in sorted(conc) if v not in named]
    rep.add("C05-R4", "calc_hills_force|exhaustive", f.loc(sws[0]), "all concrete value types are named" if not missing else
            "not named: %s" % missing, not missing or "default" in unsup, func=f.q)


def r7(F, rep):
    from . import mirror
    mirror.check(F, rep, "C05-R7", lambda f: f.cls == "colvarbias_meta" or f.name == "bin_distance_from_boundaries", 4,
                 "the metadynamics code and colvar_grid::bin_distance_from_boundaries() (which decides which hills are "
                 "kept for analytic evaluation outside the grid)")
    mirror.copy_like_to_like(F, rep, "C05-R7", lambda c: c.startswith("colvar_grid"), 6)


def r8(F, rep):
    rep.rule("C05-R8", "the list of hills evaluated analytically outside the grid is derived from the grid in force: "
                       "recount_hills_off_grid() reads the boundaries of hills_energy, so in every function that also replaces "
                       "hills_energy the recount comes after the last replacement, and a function that rebins the grids after a "
                       "restart does recount")
    from .rules_c10 import lvalue_writes
    n = 0
    for f in F.funcs.values():
        if f.cls != "colvarbias_meta" or not f.cfg.ok:
            continue
        rec = [c for c in X.calls(f) if X.callee_name(c) == "recount_hills_off_grid"]
        wr = [w for w, t in lvalue_writes(f) if X.key(t, f) == "this.hills_energy" and not (w["k"] == "UnaryOperator")]
        wr = [w for w in wr if w["k"] in ("CXXOperatorCallExpr", "BinaryOperator") and w.get("op") == "=" or
              (w["k"] == "CXXMemberCallExpr" and X.callee_name(w) == "reset")]
        if f.name == "rebin_grids_after_restart":
            n += 1
            rep.add("C05-R8", "%s|recounts" % f.q, f.loc(), "%s replaces hills_energy (%d site) and recounts the off-grid hills (%d call)" % (f.q, len(wr), len(rec)),
                    bool(wr) and bool(rec), func=f.q)
        if not rec or not wr:
            continue
        for c in rec:
            n += 1
            late = [w for w in wr if f.cfg.can_reach(c, w)]
            rep.add("C05-R8", "%s|order" % f.q, f.loc(c), "%s: recount_hills_off_grid() %s" % (f.q, "follows every replacement of hills_energy" if not late
                    else "is followed by a replacement of hills_energy: the list is built against the OLD boundaries"), not late,
                    detail="hills near the new boundaries are missing from the analytic sum: energy and force drop when the variable leaves the grid", func=f.q)
    if n < 2:
        raise AnalysisBroken("C05-R8: rebin_grids_after_restart / recount_hills_off_grid not found")


def off_grid_membership(F, rep, rid):
    """Shared with C03-R10 (the state reader classifies hills like the running bias)."""
    rep.rule(rid, "one membership test for the hills kept for analytic evaluation: every hills_off_grid.push_back() is guarded by "
                  "the same comparison of the same boundary-distance call (same callee, same constant arguments after the "
                  "centres) with the same threshold -- at deposition, when the list is rebuilt and when hills are read back "
                  "from a state")
    sites = []
    for f in F.funcs.values():
        if f.cls != "colvarbias_meta" or f.body is None:
            continue
        res = X.const_locals(f)
        for c in X.calls(f):
            if c["k"] != "CXXMemberCallExpr" or X.callee_name(c) != "push_back" or X.receiver(c) is None or "hills_off_grid" not in X.key(X.receiver(c), f):
                continue
            from .rules_c03 import structural_guards
            sig = None
            for cn, pol in structural_guards(f, c):
                k = X.strip(cn)
                if k["k"] == "BinaryOperator" and k.get("op") in ("<", "<=", ">", ">="):
                    lhs, rhs = X.kids(k)
                    call = None
                    for side, other in ((lhs, rhs), (rhs, lhs)):
                        sd = X.strip(side)
                        if sd["k"] == "DeclRefExpr" and sd.get("d") in res:
                            sd = X.strip(res[sd["d"]])
                        if sd["k"] == "CXXMemberCallExpr" and X.callee_name(sd).startswith("bin_distance"):
                            call, thr = sd, other
                    if call is not None:
                        extra = tuple(X.re_strip(X.key(a, f, res)) for a in X.call_args(call)[1:])
                        sig = (call.get("cq"), extra, k.get("op"), pol, X.re_strip(X.key(thr, f, res)))
            sites.append((f, c, sig))
    if len(sites) < 3:
        raise AnalysisBroken("%s: only %d hills_off_grid.push_back sites found" % (rid, len(sites)))
    sigs = [sg for _, _, sg in sites if sg is not None]
    ref = max(set(sigs), key=sigs.count) if sigs else None
    seen = set()
    for f, c, sg in sites:
        key = "%s|%s" % (f.q.split("<")[0], X.re_strip(X.key(X.call_args(c)[0], f))[:30])
        if key in seen:
            continue
        seen.add(key)
        rep.add(rid, "off-grid|" + key, f.loc(c), "%s keeps a hill for analytic evaluation under %s" % (f.q, sg if sg else "NO boundary-distance test"),
                sg is not None and sg == ref, detail="the reference test is %s: a hill classified differently on one path makes the bias outside the grid depend on the history (restart, rebuild)" % (ref,), func=f.q)


def r9(F, rep):
    off_grid_membership(F, rep, "C05-R9")


def run(F, rep, tier):
    r1(F, rep)
    r2(F, rep)
    r3(F, rep)
    r4(F, rep)
    r5_r6(F, rep)
    r7(F, rep)
    r8(F, rep)
    r9(F, rep)
