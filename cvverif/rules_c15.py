"""C15  Every sample lands in exactly one grid bin; grid files round-trip.

R1  index typestate over histogram, reweightaMD, TI, ABF, OPES reweighting and scaledBiasingForce
R3  file formats: multicolumn header fields, raw data loop nesting and restart block order agree between
    writer and reader(s); state parameter keys are covered by C03-R1
R4  the wrap helpers apply the same non-negative modulo in their periodic branch
R5  per-dimension flags in the grid code are latched: a flag read after a loop over dimensions is only
    ever assigned a constant inside the loop
"""
from . import expr as X
from . import cond as C
from . import gridindex
from .facts import AnalysisBroken


def r1(F, rep):
    rep.rule("C15-R1", "a sample lands in a bin or in no bin: every grid element access outside the metadynamics code "
                       "(histogram, reweightaMD, TI, ABF, OPES reweighting, scaledBiasingForce) uses a bin index checked "
                       "with index_ok (typestate of cvverif/gridindex.py)")
    n = 0
    skip = lambda f: (f.cls or "") == "colvarbias_meta" or gridindex.is_grid_class(f.cls or "") or \
        (f.cls or "").startswith("colvarmodule::") or f.cls == "colvarvalue"
    for f, c, K, ok, why in gridindex.sites(F, lambda f: not skip(f)):
        n += 1
        rep.add("C15-R1", "%s|%s|%s|%s" % (f.q, X.text(X.receiver(c), f), X.callee_name(c), X.re_strip(K)), f.loc(c),
                "%s.%s(%s) in %s: %s" % (X.text(X.receiver(c), f), X.callee_name(c), X.re_strip(K), f.q, why), ok,
                detail="a value outside the grid would be counted in, or read from, memory outside the grid", func=f.q)
    if n < 20:
        raise AnalysisBroken("only %d grid element accesses found" % n)


def count_values_in_loop(f, stream_op, first_loop_only=True):
    """Number of values inserted/extracted per iteration in the first loop of f that uses the stream."""
    for n in f.walk():
        if n["k"] != "ForStmt":
            continue
        body = n["c"][3]
        if body is None:
            continue
        cnt = 0
        for x in f.walk(body):
            if x["k"] == "CXXOperatorCallExpr" and x.get("op") == stream_op:
                a = X.call_args(x)
                if len(a) == 2:
                    e = X.strip(a[1])
                    t = f.type(X.strip(a[1], explicit=False))
                    if e["k"] == "StringLiteral" or "_Set" in t:
                        continue
                    cnt += 1
        if cnt:
            return cnt, n
    return 0, None


def r3(F, rep):
    rep.rule("C15-R3", "grid file formats: the multicolumn writer emits as many per-dimension header fields as the reader "
                       "and the file constructor extract; write_raw and read_raw walk the grid with the same nesting "
                       "(new_index/index_ok/incr over bins, mult values per bin); write_restart and read_restart put the "
                       "grid_parameters block before the raw data")
    for inst in ("colvar_grid<double>", "colvar_grid<unsigned long>"):
        w = [f for f in F.funcs.values() if f.cls == inst and f.name == "write_multicol" and f.params and "basic_ostream" in f.typestr(f.params[0]["t"])]
        r = [f for f in F.funcs.values() if f.cls == inst and f.name == "read_multicol" and f.params and "basic_istream" in f.typestr(f.params[0]["t"])]
        if not w or not r:
            if inst == "colvar_grid<double>":
                raise AnalysisBroken("multicolumn reader/writer of %s not found" % inst)
            continue
        nw, _ = count_values_in_loop(w[0], "<<")
        nr, _ = count_values_in_loop(r[0], ">>")
        # the reader's header loop also extracts the leading "#" token into a string
        rep.add("C15-R3", "%s|multicol-header" % inst, w[0].loc(), "%s header: %d fields written per dimension, %d extracted by the reader" % (
            inst, nw, nr - 1), nw == nr - 1 and nw >= 4,
            detail="sizes, boundaries, widths and periodicity flags must all come back", func=w[0].q)
        ctor = [f for f in F.funcs.values() if f.cls == inst and f.ctor and f.params and "basic_string" in f.typestr(f.params[0]["t"])]
        for cf in ctor:
            nc, _ = count_values_in_loop(cf, ">>")
            rep.add("C15-R3", "%s|file-ctor-header" % inst, cf.loc(), "file constructor extracts %d header fields per dimension" % (nc - 1),
                    nc - 1 == nw, func=cf.q)
        # raw
        for kind in ("basic_ostream", "memory_stream"):
            wr = [f for f in F.funcs.values() if f.cls == inst and f.name == "write_raw" and f.params and kind in f.typestr(f.params[0]["t"])]
            rkind = "basic_istream" if kind == "basic_ostream" else "memory_stream"
            rr = [f for f in F.funcs.values() if (f.cls == inst and f.name == "read_raw" and f.params and rkind in f.typestr(f.params[0]["t"]))]
            rrt = [f for f in F.funcs.values() if f.name == "read_raw_template_" and f.params and inst in f.typestr(f.params[0]["t"])
                   and any(rkind in f.typestr(p["t"]) for p in f.params)]
            cand_r = rrt or rr
            if not wr or not cand_r:
                continue

            def nest(f):
                calls = [X.callee_name(c) for c in X.calls(f)]
                has_bins = all(x in calls for x in ("new_index", "index_ok", "incr"))
                has_mult = any(x["k"] == "ForStmt" and X.mentions(x["c"][1], lambda y: y["k"] == "MemberExpr" and y.get("n") == "mult")
                               for x in f.walk())
                return has_bins, has_mult
            rep.add("C15-R3", "%s|raw|%s" % (inst, kind), wr[0].loc(), "write_raw %s ; read_raw %s (bins loop, mult loop)" % (
                nest(wr[0]), nest(cand_r[0])), nest(wr[0]) == nest(cand_r[0]) == (True, True), func=wr[0].q)
            # element convention: the writer streams the OUTPUT form of an element (value_output: a mean for grids with a
            # count grid), the reader stores through the INPUT form (value_input: multiplies back by the count)
            acc_w = sorted({X.callee_name(c) for c in X.calls(wr[0]) if X.callee_name(c) in ("value", "value_output", "value_output_smoothed", "raw_value")})
            acc_r = sorted({X.callee_name(c) for c in X.calls(cand_r[0]) if X.callee_name(c) in ("set_value", "value_input", "acc_value")})
            rep.add("C15-R3", "%s|raw-element|%s" % (inst, kind), wr[0].loc(), "write_raw emits elements through %s, read_raw stores them through %s" % (
                acc_w or "?", acc_r or "?"), acc_w == ["value_output"] and acc_r == ["value_input"],
                detail="value_output()/value_input() are inverse conventions (mean <-> sum for count-normalised grids): a writer that emits raw "
                       "sums makes the reader multiply them by the count once more", func=wr[0].q)
    # restart order
    for f in F.funcs.values():
        if f.name == "read_restart_template_":
            cs = [c for c in X.calls(f)]
            pp = [c for c in cs if X.callee_name(c) == "parse_params"]
            rr = [c for c in cs if X.callee_name(c) == "read_raw"]
            ok = bool(pp) and bool(rr) and f.cfg.can_reach(pp[0], rr[0]) or (bool(pp) and bool(rr) and pp[0]["i"] < rr[0]["i"])
            rep.add("C15-R3", "read_restart|order|%s" % f.m[-12:], f.loc(), "reader parses grid_parameters before the raw data", ok, func=f.q)
        if f.name == "write_restart" and (f.cls or "").startswith("colvar_grid<"):
            gp = [c for c in X.calls(f) if X.callee_name(c) == "get_state_params"]
            wr = [c for c in X.calls(f) if X.callee_name(c) == "write_raw"]
            ok = bool(gp) and bool(wr) and gp[0]["i"] < wr[0]["i"]
            rep.add("C15-R3", "write_restart|order|%s" % f.m[-12:], f.loc(), "writer emits grid_parameters before the raw data", ok, func=f.q)


def r4(F, rep):
    rep.rule("C15-R4", "wrap(), wrap_detect_edge() and wrap_to_edge() fold a periodic index with the same non-negative "
                       "modulo expression (ix[i] + nx[i]) % nx[i]")
    import re
    for inst in ("colvar_grid<double>", "colvar_grid<unsigned long>"):
        keys = {}
        for name in ("wrap", "wrap_detect_edge", "wrap_to_edge"):
            for f in F.funcs.values():
                if f.cls == inst and f.name == name:
                    res = X.const_locals(f)
                    ks = set()
                    for n in f.walk():
                        if n["k"] == "BinaryOperator" and n["op"] == "%":
                            facts, gs = C.guard_facts(f, n, res)
                            if any(t[0] == "true" and "periodic" in t[1] for t in facts):
                                ks.add(re.sub(r"#\d+", "", X.key(n, f, res)))
                    keys[name] = ks
        if len(keys) < 2:
            continue
        vals = list(keys.values())
        ok = all(v == vals[0] and len(v) == 1 for v in vals)
        rep.add("C15-R4", "%s|modulo" % inst, "", "%s: periodic folding in %s is %s" % (
            inst, sorted(keys), "the same expression %s" % sorted(vals[0]) if ok else "DIFFERENT: %s" % keys), ok, func=inst + "::wrap")


def r5(F, rep):
    rep.rule("C15-R5", "flags that summarise a loop over grid dimensions are latched: a boolean declared before a loop, "
                       "assigned inside it and read after it is only ever assigned a constant inside the loop (otherwise "
                       "only the last dimension would decide)")
    n = 0
    for f in F.funcs.values():
        if not ((f.cls or "").startswith("colvar_grid") or f.cls == "integrate_potential") or not f.cfg.ok:
            continue
        bools = {}
        for v in f.walk():
            if v["k"] == "VarDecl" and v.get("st") == "local" and f.typestr(v.get("t")) == "bool":
                bools[v["d"]] = v
        if not bools:
            continue
        for a in f.walk():
            if a["k"] in ("BinaryOperator", "CompoundAssignOperator") and a["op"] in ("=",):
                l = X.strip(X.kids(a)[0])
                if l["k"] != "DeclRefExpr" or l.get("d") not in bools:
                    continue
                loops = [x for x in f.ancestors(a) if x["k"] in ("ForStmt", "WhileStmt", "CXXForRangeStmt", "DoStmt")]
                if not loops:
                    continue
                outer = loops[-1]
                decl = bools[l["d"]]
                if any(x is outer for x in f.ancestors(decl)):
                    continue
                # read after the loop?
                read_after = False
                for x in f.walk():
                    if x["k"] == "DeclRefExpr" and x.get("d") == l["d"] and x is not l:
                        if not any(y is outer for y in f.ancestors(x)):
                            p = f.parent(x)
                            is_lhs = p is not None and p["k"] == "BinaryOperator" and p["op"] == "=" and X.strip(X.kids(p)[0]) is x
                            if not is_lhs:
                                kills = [k2 for k2 in f.walk() if k2["k"] == "BinaryOperator" and k2["op"] == "=" and k2 is not a
                                         and X.strip(X.kids(k2)[0])["k"] == "DeclRefExpr" and X.strip(X.kids(k2)[0]).get("d") == l["d"]
                                         and not any(y is outer for y in f.ancestors(k2))]
                                if f.cfg.can_reach(a, x, avoiding=kills):
                                    read_after = True
                if not read_after:
                    continue
                n += 1
                lit = C._lit(X.kids(a)[1])
                rep.add("C15-R5", "%s|%s|%s" % (f.q, l["n"], X.text(X.kids(a)[1], f)[:40]), f.loc(a),
                        "flag `%s` in %s is assigned %s inside the loop" % (l["n"], f.q, "a constant (latched)" if lit is not None
                                                                             else "a fresh value `%s` on every iteration" % X.text(X.kids(a)[1], f)[:60]),
                        lit is not None, detail="the grid would be re-dimensioned / remapped according to its last dimension only", func=f.q)
    if n < 3:
        raise AnalysisBroken("only %d latched loop flags found in the grid code" % n)


def r6(F, rep):
    from . import mirror
    grid_defs = ("colvar::init_grid_parameters", "colvar::cvc::init_scalar_boundaries", "colvarbias_abf::init",
                 "colvarbias_opes::write_output_files", "colvarbias_restraint_histogram::init")
    mirror.check(F, rep, "C15-R6", lambda f: (f.cls or "").startswith("colvar_grid") or f.q in grid_defs, 10,
                 "the grid classes and the functions that define grid boundaries (lower/upper boundaries, hard-boundary and "
                 "expansion flags)")
    mirror.copy_like_to_like(F, rep, "C15-R6", lambda c: c.startswith("colvar_grid"), 6)


def r7(F, rep):
    rep.rule("C15-R7", "change detection covers what may change: in colvar_grid::parse_params() every grid-defining member that "
                       "a get_keyval() call may overwrite (boundaries, widths, sizes) is saved before the calls, and the test "
                       "that decides whether the grid is re-dimensioned compares the member with its saved copy")
    from .rules_c10 import lvalue_writes
    n = 0
    done = set()
    for f in F.func_q("colvar_grid::parse_params") or []:
        pass
    fs = [f for f in F.funcs.values() if f.name == "parse_params" and (f.cls or "").startswith("colvar_grid")]
    if not fs:
        raise AnalysisBroken("colvar_grid::parse_params not found")
    f = fs[0]
    res = None
    gk = [c for c in X.calls(f) if X.callee_name(c) == "get_keyval" and len(X.call_args(c)) >= 3]
    members = {}
    for c in gk:
        a = X.strip(X.call_args(c)[2])
        if a["k"] == "MemberExpr" and a.get("dk") == "Field" and "vector" in f.type(a):
            members.setdefault(a["n"], []).append(c)
    # saved copies
    saved = {}
    for v in f.walk():
        if v["k"] == "VarDecl" and X.kids(v):
            init = X.strip(X.kids(v)[0])
            while init["k"] in ("CXXConstructExpr",) and len(X.kids(init)) == 1:
                init = X.strip(X.kids(init)[0])
            if init["k"] == "MemberExpr" and init.get("n") in members:
                if v.get("ref") or "&" in f.typestr(v.get("t")):
                    continue          # a reference is an alias of the member, not a snapshot of it
                saved[init["n"]] = v
    # the change test: conditions guarding `new_params = true`
    # the flag is identified by its role: the boolean local that guards the re-dimensioning (init_from_boundaries / setup)
    flag_ids = set()
    for c in X.calls(f):
        if X.callee_name(c) in ("init_from_boundaries", "setup"):
            for cid, pol in f.cfg.real_guards(c):
                g = X.strip(f.nodes[cid])
                if pol and g["k"] == "DeclRefExpr" and g.get("st") == "local":
                    flag_ids.add(g["d"])
    allw = [w for w, t in lvalue_writes(f) if X.strip(t)["k"] == "DeclRefExpr" and X.strip(t).get("d") in flag_ids and w["k"] == "BinaryOperator"]
    sets = [w for w in allw if C._lit(X.kids(w)[1]) == 1]
    cond_keys = ""
    for w in sets:
        for a in f.ancestors(w):
            if a["k"] == "IfStmt":
                cs = a["c"]
                cn = cs[1] if len(cs) == 4 else cs[0]
                cond_keys += " " + X.re_strip(X.key(cn, f))
    # the flag may also be computed directly from the comparisons (flag = a != b || ...)
    for w in allw:
        if C._lit(X.kids(w)[1]) is None:
            cond_keys += " " + X.re_strip(X.key(X.kids(w)[1], f))
    for v in f.walk():
        if v["k"] == "VarDecl" and v.get("d") in flag_ids and X.kids(v) and C._lit(X.kids(v)[0]) is None:
            cond_keys += " " + X.re_strip(X.key(X.kids(v)[0], f))
    if not flag_ids:
        raise AnalysisBroken("colvar_grid::parse_params: no boolean local guards the re-dimensioning call")
    if not cond_keys.strip():
        rep.add("C15-R7", "parse_params|change-test", f.loc(), "the flag that triggers re-dimensioning is never derived from a comparison of old and new parameters", False,
                detail="a changed grid definition is not applied to the data array", func=f.q)
    for m in sorted(members):
        n += 1
        v = saved.get(m)
        before = v is not None and all(f.cfg.dominates(v, c) for c in members[m])
        compared = v is not None and ("this." + m) in cond_keys and v["n"] in cond_keys
        rep.add("C15-R7", "parse_params|%s" % m, f.loc(members[m][0]), "`%s` may be overwritten from the configuration; saved before as `%s`: %s; compared in the re-dimensioning test: %s" % (
            m, v["n"] if v is not None else None, before, compared), before and compared,
            detail="changing only this parameter leaves the grid with its old number of points", func=f.q)
    if n < 4:
        raise AnalysisBroken("parse_params: only %d overwritable grid members found" % n)


def companion_shape(F, rep, rid):
    """Shared with C04-R6."""
    rep.rule(rid, "companion grids have one shape: a constructor of a grid class that stores a pointer to another grid in a "
                  "member (the count grid of a gradient grid, the gradient grid of a PMF grid -- both are subscripted with "
                  "the holder's own indices) sizes the holder from that grid: the base-class initialiser receives the same "
                  "parameter, or the body copies the number of points from it")
    grid_classes = set(F.subclasses("colvar_grid_params", strict=True)) if hasattr(F, "subclasses") else set()
    n = 0
    for f in F.funcs.values():
        if not f.ctor or f.cls not in grid_classes or "/src/" not in f.file:
            continue
        pd = {p["d"]: p for p in f.params}
        for it in f.inits:
            e = it.get("e") or it.get("init")
            if not it.get("member") or e is None:
                continue
            ee = X.strip(e)
            while ee["k"] in ("CXXConstructExpr", "ImplicitCastExpr", "MaterializeTemporaryExpr", "CXXBindTemporaryExpr") and len(X.kids(ee)) == 1:
                ee = X.strip(X.kids(ee)[0])
            if ee["k"] != "DeclRefExpr" or ee.get("d") not in pd:
                continue
            ptype = f.typestr(pd[ee["d"]]["t"])
            if "colvar_grid" not in ptype or "shared_ptr" not in ptype:
                continue
            n += 1
            d = ee["d"]
            ment = lambda m: m["k"] == "DeclRefExpr" and m.get("d") == d
            via_base = any(b.get("base") is not None and (b.get("e") or b.get("init")) is not None and X.mentions(b.get("e") or b.get("init"), ment) for b in f.inits)
            via_body = False
            if f.body is not None:
                from .rules_c10 import lvalue_writes
                for w, t in lvalue_writes(f):
                    if X.key(t, f) == "this.nx" and w["k"] in ("BinaryOperator", "CXXOperatorCallExpr") and X.mentions(w, ment):
                        via_body = True
            ok = via_base or via_body
            rep.add(rid, "%s|%s<-%s" % (f.q, it["member"], pd[d]["n"]), f.loc(), "%s(%s) stores `%s` in `%s`; the holder is sized from it: %s" % (
                f.q, ", ".join(p["n"] for p in f.params), pd[d]["n"], it["member"],
                "through the base-class initialiser" if via_base else "in the body" if via_body else "NO (sized from the variables / another argument only)"), ok,
                detail="a custom grid block gives the two grids different numbers of bins; a bin index computed on one addresses the other out of range", func=f.q)
    if n < 3:
        raise AnalysisBroken("%s: only %d constructors storing a companion grid found (gradient+count, pmf+gradient x2 expected)" % (rid, n))


def r8(F, rep):
    companion_shape(F, rep, "C15-R8")


def mult_offset(F, rep, rid):
    """Shared with C03-R11 (the state reader stores through value_input)."""
    rep.rule(rid, "multi-valued grids address one component of one bin: in a grid class whose constructors pass a multiplicity "
                  "other than the literal 1 to the base grid (the gradient grid: one value per variable and bin), every "
                  "subscript of the data array in an element accessor that takes a component number (value, value_output, "
                  "value_input, set_value, acc_*) contains that parameter")
    grid = set(F.subclasses("colvar_grid_params"))
    multi = set()
    for f in F.funcs.values():
        if f.ctor and f.cls in grid and "/src/" in f.file:
            for it in f.inits:
                e = it.get("e") or it.get("init")
                if it.get("base") is None or e is None:
                    continue
                args = X.call_args(X.strip(e)) if X.strip(e)["k"] in ("CXXConstructExpr", "CXXTemporaryObjectExpr") else []
                if len(args) >= 3 and C._lit(X.strip(args[2])) != 1 and C._lit(X.strip(args[2])) is not None or \
                        (len(args) >= 3 and C._lit(X.strip(args[2])) is None and "size" in X.key(args[2], f)):
                    multi.add(f.cls)
    if not multi:
        raise AnalysisBroken("%s: no multi-valued grid class found (colvar_grid_gradient expected)" % rid)
    n = 0
    seen = set()
    for f in F.funcs.values():
        if f.cls not in multi or f.body is None or "/src/" not in f.file or f.ctor:
            continue
        ints = [p for p in f.params if f.typestr(p["t"]).replace("const ", "").replace("&", "").strip() in ("unsigned long", "int", "size_t", "std::size_t", "unsigned int")]
        vecs = [p for p in f.params if "vector<int" in f.typestr(p["t"])]
        if not ints or not vecs:
            continue
        comp = ints[-1]          # by convention the component number is the last integer parameter
        for u in f.walk():
            if not (u["k"] == "CXXOperatorCallExpr" and u.get("op") == "[]" and X.key(X.call_args(u)[0], f) == "this.data"):
                continue
            key = (f.q, X.re_strip(X.key(X.call_args(u)[1], f)), u.get("l"))
            if key in seen:
                continue
            seen.add(key)
            n += 1
            ok = X.mentions(X.call_args(u)[1], lambda m: m["k"] == "DeclRefExpr" and m.get("d") == comp["d"])
            rep.add(rid, "%s|data[%s]" % (f.q, key[1][:40]), f.loc(u), "%s(…, %s) addresses `data[%s]`%s" % (
                f.q, comp["n"], key[1][:50], "" if ok else " -- WITHOUT the component number"), ok,
                detail="every component of a bin is read from or written to component 0", func=f.q)
    if n < 4:
        raise AnalysisBroken("%s: only %d per-component data accesses found" % (rid, n))


def r10(F, rep):
    mult_offset(F, rep, "C15-R10")


def _walk(n):
    yield n
    for c in X.kids(n):
        if c is not None:
            yield from _walk(c)


def r9(F, rep, rid="C15-R9"):
    rep.rule(rid, "a value becomes a bin index by rounding DOWN: in the grid classes, wherever a floating-point quotient whose "
                       "numerator is a difference ((value - lower boundary) / width) is converted to an integer (return of an "
                       "integer function, initialiser of or assignment to an integer), the converted expression is a call of "
                       "floor(): a bare cast truncates towards zero and puts values up to one width below the lower boundary "
                       "into bin 0 instead of bin -1 (outside)")
    def isfloat(t):
        return t.replace("const ", "").strip() in ("double", "float", "cvm::real", "colvarmodule::real")

    def isint(t):
        return t.replace("const ", "").strip() in ("int", "long", "size_t", "unsigned long", "unsigned int", "long long", "std::size_t")

    def signed_quotient(v, res, depth=0):
        for m in _walk(v):
            if m["k"] == "BinaryOperator" and m.get("op") == "/":
                if any(x["k"] == "BinaryOperator" and x.get("op") == "-" for x in _walk(X.kids(m)[0])):
                    return True
            if m["k"] == "DeclRefExpr" and m.get("d") in res and depth < 3 and signed_quotient(res[m["d"]], res, depth + 1):
                return True
        return False
    grid = set(F.subclasses("colvar_grid_params")) | {"colvar_grid_params"}
    n = 0
    for f in F.funcs.values():
        if f.cls not in grid or "/src/" not in f.file or f.body is None:
            continue
        for s in f.walk():
            val = tt = None
            if s["k"] == "ReturnStmt" and X.kids(s):
                val, tt = X.kids(s)[0], f.typestr(f.ret)
            elif s["k"] == "VarDecl" and X.kids(s):
                val, tt = X.kids(s)[0], f.typestr(s.get("t"))
            elif s["k"] == "BinaryOperator" and s.get("op") == "=":
                val, tt = X.kids(s)[1], f.typestr(X.strip(X.kids(s)[0]).get("t"))
            if val is None or not tt or not isint(tt):
                continue
            v = X.strip(val)
            if not isfloat(f.typestr(v.get("t"))) or not signed_quotient(v, X.const_locals(f)):
                continue
            n += 1
            ok = v["k"] == "CallExpr" and (v.get("cq") or "").split("::")[-1] == "floor"
            rep.add(rid, "%s|%s" % (f.q, X.re_strip(X.key(v, f))[:60]), f.loc(s), "%s converts `%s` to an integer %s" % (
                f.q, X.text(v, f)[:70], "through floor()" if ok else "WITHOUT floor() (truncation towards zero)"), ok,
                detail="a sample just below the lower boundary is counted in (and forced by) the first bin", func=f.q)
    if n < 3:
        raise AnalysisBroken("%s: only %d value-to-bin conversions found in the grid classes" % (rid, n))


def count_lookup(F, rep, rid="C15-R12"):
    rep.rule(rid, "what is divided out on output is multiplied back on input: in a grid class that stores sums and writes "
                  "averages, value_output() and value_input() look up the sample count of the bin with the same call on the "
                  "count grid (same arguments, canonical text) -- a different index on one side rescales the stored sums at "
                  "every load")
    n = 0
    by = {}
    for f in F.funcs.values():
        if "/src/" not in f.file or f.body is None or not f.cls or f.name not in ("value_output", "value_input"):
            continue
        by.setdefault(f.cls, {}).setdefault(f.name, []).append(f)

    def lookups(f):
        out = {}
        for c in X.calls(f):
            if c["k"] == "CXXMemberCallExpr" and X.callee_name(c) == "value" and X.receiver(c) is not None:
                rk = X.re_strip(X.key(X.receiver(c), f))
                if rk.startswith("op->(this.") or rk.startswith("this."):
                    out.setdefault("%s.value(%s)" % (rk, ", ".join(X.re_strip(X.key(a, f)) for a in X.call_args(c) if a["k"] != "CXXDefaultArgExpr")), c)
        return out
    for cls, d in sorted(by.items()):
        for fo in d.get("value_output", []):
            lo = lookups(fo)
            if not lo:
                continue
            for fi in d.get("value_input", []):
                li = lookups(fi)
                n += 1
                extra = sorted(set(li) - set(lo))
                rep.add(rid, "%s|count-lookup" % cls, fi.loc(li[extra[0]]) if extra else fi.loc(), "%s: value_input() multiplies by %s; value_output() divides by %s" % (
                    cls, sorted(li), sorted(lo)), not extra,
                    detail="the sums restored from a state or file are scaled by another bin's (or component's) count", func=fi.q)
    if n < 2:
        raise AnalysisBroken("%s: only %d grid classes with count-normalised output and input found" % (rid, n))


def delegated_members(F, rep, rid="C15-R13"):
    rep.rule(rid, "a function that is handed values answers about those values: where an overload without parameters only forwards "
                  "members of the object to an overload of the same name with parameters (`f() { return f(m1, m2); }`), the "
                  "overload with parameters does not read those members itself -- a grid asks about ITS boundaries, which a "
                  "`grid { ... }` block may have set to other values than the variable's")
    n = 0
    by = {}
    for f in F.funcs.values():
        if "/src/" in f.file and f.body is not None and f.cls:
            by.setdefault((f.cls, f.name), []).append(f)
    for (cls, name), fs in sorted(by.items()):
        short = [f for f in fs if not f.params]
        longs = [f for f in fs if f.params]
        if not short or not longs:
            continue
        for f0 in short:
            for c in X.calls(f0):
                if X.callee_name(c) != name or not X.call_args(c):
                    continue
                tgt = F.funcs.get(c.get("callee"))
                if tgt is None or tgt not in longs or not tgt.const:
                    continue   # only queries (const members): a setter may store its parameters and then use the members
                passed = []
                for a in X.call_args(c):
                    sa = X.strip(a)
                    if sa["k"] == "MemberExpr" and sa.get("dk") == "Field" and X.kids(sa) and X.strip(X.kids(sa)[0])["k"] == "CXXThisExpr":
                        passed.append(sa["q"])
                if not passed:
                    continue
                n += 1
                read = sorted({y["q"] for y in tgt.walk() if y["k"] == "MemberExpr" and y.get("dk") == "Field" and y.get("q") in passed})
                rep.add(rid, "%s::%s" % (cls, name), tgt.loc(), "%s::%s(%d parameters) is called by the parameterless overload with %s and %s" % (
                    cls, name, len(tgt.params), [q.split("::")[-1] for q in passed], "reads none of them directly" if not read else
                    "reads `%s` directly instead of its parameter" % read[0].split("::")[-1]), not read,
                    detail="callers that pass other values (a grid with its own boundaries) get the answer for the object's members", func=tgt.q)
    if n < 1:
        raise AnalysisBroken("%s: no parameterless overload forwarding members found (colvar::periodic_boundaries expected)" % rid)


def run(F, rep, tier):
    delegated_members(F, rep)
    count_lookup(F, rep)
    from .rules_c19 import named_output
    named_output(F, rep, "C15-R11")
    r8(F, rep)
    r10(F, rep)
    r9(F, rep)
    r1(F, rep)
    r3(F, rep)
    r4(F, rep)
    r5(F, rep)
    r6(F, rep)
    r7(F, rep)
