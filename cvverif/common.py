"""Reporting, evidence, known-findings and floors shared by all rule engines."""
import json
import os
import re
import time

from .facts import VERIF, AnalysisBroken

EVIDENCE_DIR = os.path.join(VERIF, "evidence")
TABLES = os.path.join(VERIF, "tables")
KNOWN_FILE = os.path.join(VERIF, "known_findings.json")


def load_table(name):
    with open(os.path.join(TABLES, name)) as f:
        return json.load(f)


class Obligation:
    __slots__ = ("rule", "key", "loc", "what", "ok", "detail", "func")

    def __init__(self, rule, key, loc, what, ok, detail="", func=""):
        self.rule, self.key, self.loc, self.what, self.ok, self.detail, self.func = (
            rule, key, loc, what, ok, detail, func)

    def as_dict(self):
        return {"rule": self.rule, "key": self.key, "loc": self.loc, "function": self.func,
                "what": self.what, "ok": self.ok, "detail": self.detail}


class Report:
    def __init__(self, prop, tier="quick", only_key=None):
        self.prop = prop
        self.tier = tier
        self.only_key = only_key
        self.obls = []
        self.rules = {}        # rule id -> description
        self.analysed = {}     # free-form counters
        self.notes = []
        self.selftest = []
        self.t0 = time.time()
        self.info = {}

    def rule(self, rid, text):
        self.rules[rid] = text

    def add(self, rule, key, loc, what, ok, detail="", func=""):
        """Record one obligation.  key must be stable under unrelated edits
        (rule + function + canonical expression), never a line number."""
        key = "%s|%s" % (rule, key)
        if self.only_key and key != self.only_key:
            return
        self.obls.append(Obligation(rule, key, loc, what, bool(ok), detail, func))

    def count(self, name, n=1):
        self.analysed[name] = self.analysed.get(name, 0) + n

    def note(self, s):
        self.notes.append(s)

    def check_floors(self):
        table = load_table("floors.json")
        # a configuration may bind fewer instances (a build without OpenMP has no parallel regions): "<prop>@<config>"
        floors = table.get("%s@%s" % (self.prop, self.info.get("config")), table.get(self.prop, {}))
        per_rule = {}
        for o in self.obls:
            per_rule[o.rule] = per_rule.get(o.rule, 0) + 1
        for rid, floor in floors.items():
            if self.only_key:
                continue
            if per_rule.get(rid, 0) < floor:
                raise AnalysisBroken(
                    "rule %s bound %d instances, below the floor %d confirmed by hand "
                    "(anchor moved or extractor regression) -- refusing to pass vacuously"
                    % (rid, per_rule.get(rid, 0), floor))
        return per_rule

    def finish(self):
        per_rule = self.check_floors()
        known = {"known": [], "fixed": []}
        if os.path.exists(KNOWN_FILE):
            with open(KNOWN_FILE) as f:
                known = json.load(f)
        known_keys = {k["key"]: k for k in known.get("known", []) if k["property"] == self.prop}
        viol, knownhits = [], []
        for o in self.obls:
            if o.ok:
                continue
            if o.key in known_keys:
                knownhits.append(o)
            else:
                viol.append(o)
        os.makedirs(os.path.join(EVIDENCE_DIR, "violations"), exist_ok=True)
        print("== %s tier=%s  repo=%s" % (self.prop, self.tier, self.info.get("root", "?")))
        print("   analysed: %d units, %d functions (config %s, flags from %s)" % (
            self.info.get("units", 0), self.info.get("functions", 0),
            self.info.get("config", "?"), self.info.get("flags_source", "?")))
        for rid in sorted(self.rules):
            n = per_rule.get(rid, 0)
            bad = sum(1 for o in self.obls if o.rule == rid and not o.ok)
            print("   [%s] %d obligations, %d failing -- %s" % (rid, n, bad, self.rules[rid]))
        for k, v in sorted(self.analysed.items()):
            print("   %s = %s" % (k, v))
        for s in self.notes:
            print("   note: " + s)
        for o in knownhits:
            print("KNOWN-FINDING: property=%s %s at %s (%s) -- %s" % (
                self.prop, o.what, o.loc, o.func, known_keys[o.key].get("what", "")))
        printed = set()
        for o in viol:
            # the same site seen through several template instantiations is reported once
            if (o.key, o.loc, o.what) in printed:
                continue
            printed.add((o.key, o.loc, o.what))
            safe = re.sub(r"[^A-Za-z0-9_.-]+", "_", o.key)[:150]
            path = os.path.join(EVIDENCE_DIR, "violations", "%s-%s.json" % (self.prop, safe))
            with open(path, "w") as f:
                json.dump(dict(o.as_dict(), property=self.prop), f, indent=1)
            print("  FAIL [%s] %s: %s\n       in %s\n       %s" % (o.rule, o.loc, o.what, o.func, o.detail))
            print("VIOLATION property=%s replay=%s" % (self.prop, path))
        ok_n = sum(1 for o in self.obls if o.ok)
        samples = [o.as_dict() for o in self.obls[:3]] + [o.as_dict() for o in self.obls if not o.ok][:5]
        ev = {
            "property_id": self.prop,
            "tier": self.tier,
            "seed": int(os.environ.get("VERIF_SEED", "0") or 0),
            "level": "other",
            "coverage": {
                "explanation": (
                    "Static analysis of the current working tree: %d translation units parsed with the real "
                    "build flags by a libTooling extractor; rule engines decide structural necessary "
                    "conditions of the property over the type-resolved AST, per-function CFGs and the "
                    "class-hierarchy call graph.  Nothing is executed.  Rules: %s" % (
                        self.info.get("units", 0),
                        "; ".join("%s: %s" % (r, self.rules[r]) for r in sorted(self.rules)))),
                "obligations": len(self.obls),
                "discharged": ok_n,
                "known_findings": len(knownhits),
                "evaluations": max(1, len(self.obls)),
                "distinct_nontrivial": len({o.key for o in self.obls}),
                "rule": "one obligation per (rule, function, canonical site key); all are distinct program "
                        "sites bound by the rule on this run",
                "per_rule": per_rule,
                "analysed": dict(self.analysed, units=self.info.get("units", 0),
                                 functions=self.info.get("functions", 0),
                                 config=self.info.get("config"), flags=self.info.get("flags")),
                "samples": samples,
                "selftest": self.selftest,
                "exhaustive": True,
                "checker_cmd": "./check %s --tier %s" % (self.prop, self.tier),
                "trusted_base": ["clang 14 front end and clang::CFG", "class-hierarchy call graph",
                                 "frozen tables under /verif/tables"],
            },
            "assumptions": [
                "decides only the structural clauses listed in DESIGN.md for this property; the numerical/"
                "behavioural remainder is not decided",
                "code under disabled preprocessor branches (LEPTON, COLVARS_TCL, COLVARS_TORCH, ...) is not analysed",
            ] + self.notes,
            "wall_s": round(time.time() - self.t0, 2),
            "violations": len(viol),
        }
        os.makedirs(EVIDENCE_DIR, exist_ok=True)
        with open(os.path.join(EVIDENCE_DIR, "%s.json" % self.prop), "w") as f:
            json.dump(ev, f, indent=1, default=str)
        print("== %s: %d obligations, %d discharged, %d known findings, %d violations (%.1fs)" % (
            self.prop, len(self.obls), ok_n, len(knownhits), len(viol), time.time() - self.t0))
        return 1 if viol else 0
