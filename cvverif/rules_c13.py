"""C13  Defining then deleting objects is the identity; dependencies stay consistent.

R1  static dependency tables are well-formed (own enum, child enum, acyclic, initialised, exclusions symmetric)
R2  enable/disable mirror each other over the three dependency lists; recorded choices are forgotten
R3  registry pairing: every container of raw object pointers has an erase reachable from the pointee's destructor
R4  atom reference counts balance
R5  by-name look-ups are null-checked before use
R9  release loops visit every element (no counting loop that also shrinks its container)
"""
from . import expr as X
from . import cond as C
from . import callgraph
from .facts import AnalysisBroken

DEP_CALLS = ("init_feature", "require_feature_self", "require_feature_children", "require_feature_alt",
             "exclude_feature_self")

# parent class -> (own enum, child enum)
TABLES = {
    "colvarbias::init_dependencies": ("colvardeps::features_biases", "colvardeps::features_colvar"),
    "colvar::init_dependencies": ("colvardeps::features_colvar", "colvardeps::features_cvc"),
    "colvar::cvc::init_dependencies": ("colvardeps::features_cvc", "colvardeps::features_atomgroup"),
    "colvarmodule::atom_group::init_dependencies": ("colvardeps::features_atomgroup", None),
}


def enum_of(F):
    m = {}
    for q, e in F.enums.items():
        for name, val in e["items"]:
            m[name] = q
    return m


def arg_enum(a):
    a = X.strip(a)
    if a["k"] == "DeclRefExpr" and a.get("dk") == "EnumConstant":
        return a["n"], a.get("v")
    return None, None


def r1(F, rep):
    rep.rule("C13-R1", "static dependency tables: every feature of each class is initialised once, prerequisites "
                       "named in require_feature_self/alt/exclude belong to the class's own feature enum, "
                       "require_feature_children targets belong to the child class's enum, and "
                       "requires_self + requires_alt is acyclic")
    eo = enum_of(F)
    nrows = 0
    for fq, (own, child) in TABLES.items():
        f = F.one(fq)
        if own not in F.enums:
            raise AnalysisBroken("enum %s not found" % own)
        own_items = [n for n, v in F.enums[own]["items"] if not n.endswith("_ntot")]
        inited = {}
        edges = {}
        for c in X.calls(f):
            nm = X.callee_name(c)
            if nm not in DEP_CALLS or not c.get("cq", "").startswith("colvardeps::"):
                continue
            args = X.call_args(c)
            names = [arg_enum(a)[0] for a in args]
            nrows += 1
            if nm == "init_feature":
                n0 = names[0]
                key = "%s|init|%s" % (fq, n0)
                sig = tuple(X.key(a, f) for a in args)
                # a repeated initialisation is harmless only if it says exactly the same thing
                ok = n0 is not None and eo.get(n0) == own and (n0 not in inited or inited[n0] == sig)
                key_suffix = "" if n0 not in inited else "|again"
                inited[n0] = sig
                rep.add("C13-R1", "%s|init|%s%s" % (fq, n0, key_suffix), f.loc(c), "feature %s initialised in %s (%s)" % (
                    n0, fq, "own enum, consistent" if ok else "WRONG enum or conflicting re-initialisation"), ok, func=fq)
                continue
                rep.add("C13-R1", key, f.loc(c), "feature %s initialised in %s (%s)" % (
                    n0, fq, "own enum, once" if ok else "WRONG enum or initialised twice"), ok, func=fq)
                continue
            if names[0] is None:
                rep.add("C13-R1", "%s|%s|nonconst" % (fq, nm), f.loc(c), "%s with a non-constant feature id" % nm, False, func=fq)
                continue
            want = child if nm == "require_feature_children" else own
            for i, n in enumerate(names):
                if i == 0:
                    ok = eo.get(n) == own
                    tag = "subject"
                else:
                    if n is None:
                        continue
                    ok = eo.get(n) == want
                    tag = "target"
                rep.add("C13-R1", "%s|%s|%s|%s|%s" % (fq, nm, names[0], tag, n), f.loc(c),
                        "%s(%s): %s %s %s" % (nm, ", ".join(str(x) for x in names), tag, n,
                                              "belongs to %s" % (want if i else own) if ok else "does NOT belong to %s (it is in %s)" % (
                                                  want if i else own, eo.get(n))),
                        ok, detail="feature ids are plain ints: an id from another class's enum indexes the wrong feature", func=fq)
            if nm in ("require_feature_self", "require_feature_alt"):
                for n in names[1:]:
                    if n:
                        edges.setdefault(names[0], set()).add(n)
        # every enumerator initialised
        for n in own_items:
            rep.add("C13-R1", "%s|initialised|%s" % (fq, n), f.loc(), "feature %s of %s %s" % (
                n, own, "is initialised" if n in inited else "is NEVER initialised"), n in inited, func=fq)
        # acyclic
        color = {}
        cyc = []

        def dfs(u, path):
            color[u] = 1
            for v in sorted(edges.get(u, ())):
                if color.get(v) == 1:
                    cyc.append(path + [u, v])
                elif color.get(v) is None:
                    dfs(v, path + [u])
            color[u] = 2
        for u in sorted(edges):
            if color.get(u) is None:
                dfs(u, [])
        rep.add("C13-R1", "%s|acyclic" % fq, f.loc(), "requires_self/alt graph of %s (%d edges) is %s" % (
            fq, sum(len(v) for v in edges.values()), "acyclic" if not cyc else "CYCLIC: %s" % cyc[0]), not cyc,
            detail="colvardeps::enable() recurses along these edges without a visited set", func=fq)
    # exclusions symmetric by construction
    ex = F.one("colvardeps::exclude_feature_self")
    pushes = [c for c in X.calls(ex) if X.callee_name(c) == "push_back"]
    pk = {"%s#%s" % (p["n"], p["d"]) for p in ex.params}
    pairs = set()
    for c in pushes:
        r = X.receiver(c)
        idx = None
        for x in ex.walk(r):
            if x["k"] == "DeclRefExpr" and x.get("st") == "param":
                idx = X.key(x, ex)
        val = X.key(X.call_args(c)[0], ex)
        pairs.add((idx, val))
    ks = sorted(pk)
    ok = len(ks) == 2 and pairs == {(ks[0], ks[1]), (ks[1], ks[0])}
    rep.add("C13-R1", "exclude_feature_self|symmetric", ex.loc(), "exclude_feature_self records the exclusion in both directions" if ok
            else "exclude_feature_self is NOT symmetric: %s" % sorted(pairs), ok, func=ex.q)
    # requires_exclude has no other writer
    from .rules_c10 import lvalue_writes
    writers = set()
    for g in F.funcs.values():
        for w, tgt in lvalue_writes(g):
            if X.mentions(tgt, lambda x: x["k"] == "MemberExpr" and x.get("q") == "colvardeps::feature::requires_exclude") and \
                    w["k"] == "CXXMemberCallExpr" and X.callee_name(w) in ("push_back", "insert", "emplace_back", "erase", "clear"):
                writers.add(g.q)
    rep.add("C13-R1", "requires_exclude|writers", ex.loc(), "requires_exclude is written only by %s" % sorted(writers),
            writers == {"colvardeps::exclude_feature_self"}, func=ex.q)
    rep.count("dependency_table_rows", nrows)


def list_name(f, arg, res):
    """Name of the dependency list an id expression is read from: f->requires_self[i] ->
    'requires_self' (following const locals / plain locals initialised once)."""
    a = X.strip(arg)
    seen = 0
    while a["k"] == "DeclRefExpr" and a.get("st") == "local" and seen < 4:
        seen += 1
        init = None
        for x in f.walk():
            if x["k"] == "VarDecl" and x.get("d") == a.get("d") and X.kids(x):
                init = X.kids(x)[0]
        if init is None:
            return None
        a = X.strip(init)
    names = [x["n"] for x in f.walk(a) if x["k"] == "MemberExpr" and x.get("dk") == "Field"]
    for n in names:
        if n in ("requires_self", "requires_alt", "requires_children", "alternate_refs", "requires_exclude"):
            return n
    return None


def dep_calls(f, names):
    """(list name, receiver kind, callee name, call node) for calls to `names` inside loops."""
    res = X.const_locals(f)
    out = []
    for c in X.calls(f):
        nm = X.callee_name(c)
        if nm not in names or c["k"] != "CXXMemberCallExpr":
            continue
        if not any(a["k"] in ("ForStmt", "WhileStmt") for a in f.ancestors(c)):
            continue
        r = X.receiver(c)
        rk = "this" if (r is None or X.strip(r)["k"] == "CXXThisExpr") else (
            "children" if X.mentions(r, lambda x: x["k"] == "MemberExpr" and x.get("n") == "children") else X.text(r, f))
        args = X.call_args(c)
        ln = list_name(f, args[0], res) if args else None
        out.append((ln, rk, nm, c))
    return out


def r2(F, rep):
    rep.rule("C13-R2", "enable() and disable() mirror each other: each dependency list walked with a reference-taking "
                       "enable() is walked by disable() with decr_ref_count() on the same receiver; the list that records "
                       "the chosen alternates is appended in enable(), released and then cleared in disable(); "
                       "free/restore_children_deps are inverse loops")
    en = F.one("colvardeps::enable")
    di = F.one("colvardeps::disable")
    fr = F.one("colvardeps::free_children_deps")
    rs = F.one("colvardeps::restore_children_deps")
    E = dep_calls(en, ("enable",))
    D = dep_calls(di, ("decr_ref_count",))
    eset = {(ln, rk) for ln, rk, _, _ in E}
    dset = {(ln, rk) for ln, rk, _, _ in D}
    if not E or not D:
        raise AnalysisBroken("dependency loops not found in colvardeps::enable/disable")
    for ln, rk in sorted(x for x in eset if x[0] in ("requires_self", "requires_children")):
        ok = (ln, rk) in dset
        rep.add("C13-R2", "mirror|%s|%s" % (ln, rk), di.loc(), "list %s (on %s) acquired in enable() is %s in disable()" % (
            ln, rk, "released" if ok else "NOT released"), ok,
            detail="reference counts of prerequisites would never return to zero", func=di.q)
    # alternates: recorded in enable, released + cleared in disable
    pushes = [c for c in X.calls(en) if c["k"] == "CXXMemberCallExpr" and X.callee_name(c) == "push_back"
              and X.mentions(X.receiver(c) or c, lambda x: x["k"] == "MemberExpr" and x.get("n") == "alternate_refs")]
    ok = bool(pushes) and ("requires_alt", "this") in eset
    rep.add("C13-R2", "alt|recorded", en.loc(), "enable() records the alternate it really enabled in alternate_refs", ok, func=en.q)
    if pushes:
        p = pushes[0]
        real = [c for ln, rk, nm, c in E if ln == "requires_alt" and en.cfg.dominates(c, p)]
        pv = X.key(X.call_args(p)[0], en)
        same = any(X.key(X.call_args(c)[0], en) == pv for c in real)
        rep.add("C13-R2", "alt|recorded-same-id", en.loc(p), "the id pushed to alternate_refs is the id just enabled", same, func=en.q)
    rel = [c for ln, rk, nm, c in D if ln == "alternate_refs" and rk == "this"]
    rep.add("C13-R2", "alt|released", di.loc(), "disable() releases every recorded alternate", bool(rel), func=di.q)
    clears = [c for c in X.calls(di) if c["k"] == "CXXMemberCallExpr" and X.callee_name(c) in ("clear",)
              and X.mentions(X.receiver(c) or c, lambda x: x["k"] == "MemberExpr" and x.get("n") == "alternate_refs")]
    ok = False
    if rel and clears:
        # every path from the release to the exit passes the clear
        ok = not di.cfg.exits_from(rel[0], avoiding=clears)
    rep.add("C13-R2", "alt|forgotten", di.loc(), "alternate_refs is %s after its entries were released" % (
        "cleared" if ok else "NOT cleared"), ok,
        detail="enable() only appends: without the reset the same alternate is dereferenced once per past enable/disable cycle",
        func=di.q)
    # children deps are released only when the object is active (enable solves them as dry-run otherwise)
    for ln, rk, nm, c in D:
        if ln == "requires_children":
            facts, gs = C.guard_facts(di, c)
            ok = any(t[0] == "true" and "is_enabled" in t[1] for t in facts)
            rep.add("C13-R2", "children|active-guard", di.loc(c), "children's references are released only while the object is active", ok, func=di.q)
    for ln, rk, nm, c in E:
        if ln == "requires_children":
            a = X.call_args(c)
            ok = len(a) >= 2 and X.mentions(a[1], lambda x: x["k"] in ("CXXMemberCallExpr",) and X.callee_name(x) == "is_enabled")
            rep.add("C13-R2", "children|dry-run-when-inactive", en.loc(c), "children's prerequisites are solved as a dry run while the object is inactive", ok, func=en.q)
    FR = dep_calls(fr, ("decr_ref_count",))
    RS = dep_calls(rs, ("enable",))
    rep.add("C13-R2", "free-restore|inverse", fr.loc(), "free_children_deps releases %s and restore_children_deps re-acquires %s" % (
        sorted({(a, b) for a, b, _, _ in FR}), sorted({(a, b) for a, b, _, _ in RS})),
        {(a, b) for a, b, _, _ in FR} == {(a, b) for a, b, _, _ in RS} == {("requires_children", "children")}, func=fr.q)
    for g, lst in ((fr, FR), (rs, RS)):
        for ln, rk, nm, c in lst:
            facts, gs = C.guard_facts(g, c)
            ok = any(t[0] == "true" and "is_enabled(fid" in t[1] for t in facts)
            rep.add("C13-R2", "free-restore|enabled-only|%s" % g.name, g.loc(c), "%s touches only the deps of enabled features" % g.name, ok, func=g.q)
    # waking/sleeping: feature 0 toggles children deps
    for g, callee in ((en, "restore_children_deps"), (di, "free_children_deps")):
        cs = [c for c in X.calls(g) if X.callee_name(c) == callee]
        ok = False
        for c in cs:
            facts, gs = C.guard_facts(g, c)
            ok = ok or any(t[0] in ("z",) and "feature_id" in t[1] for t in facts)
        rep.add("C13-R2", "active-toggle|%s" % callee, g.loc(), "%s() calls %s exactly when feature 0 (active) changes" % (g.name, callee), ok, func=g.q)


LOOKUPS = ("colvarmodule::colvar_by_name", "colvarmodule::bias_by_name", "colvarmodule::atom_group_by_name")


def r5(F, rep):
    rep.rule("C13-R5", "the result of colvar_by_name / bias_by_name / atom_group_by_name is never dereferenced on a "
                       "path that is not dominated by a null test of it")
    n = 0
    for f in F.funcs.values():
        if "/src/" not in f.file or not f.cfg.ok:
            continue
        for c in X.calls(f):
            if c.get("cq") not in LOOKUPS:
                continue
            n += 1
            p = f.parent(c)
            while p is not None and p["k"] in ("ImplicitCastExpr", "CStyleCastExpr", "CXXStaticCastExpr"):
                p = f.parent(p)
            var = None
            if p is not None and p["k"] == "VarDecl":
                var = "%s#%s" % (p["n"], p["d"])
            elif p is not None and p["k"] == "BinaryOperator" and p["op"] == "=":
                var = X.key(X.kids(p)[0], f)
            key = "%s|%s|%s" % (f.q, c.get("cq").split("::")[-1], X.text(X.call_args(c)[0], f) if X.call_args(c) else "")
            if var is None:
                # used directly: compared / tested / returned / passed on?  direct member access is a violation
                bad = p is not None and p["k"] == "MemberExpr" and p.get("arrow")
                rep.add("C13-R5", key, f.loc(c), "look-up result %s" % ("is dereferenced immediately" if bad else "is only tested/forwarded"),
                        not bad, func=f.q)
                continue
            # all dereferences of var
            bad_site = None
            for x in f.walk():
                if x["k"] == "MemberExpr" and x.get("arrow") and X.kids(x):
                    b = X.strip(X.kids(x)[0])
                    if b["k"] == "DeclRefExpr" and X.key(b, f) == var:
                        facts, gs = C.guard_facts(f, x)
                        if not (("nz", var) in facts or ("true", var) in facts):
                            if f.cfg.is_reachable(x) and f.cfg.can_reach(c, x):
                                bad_site = x
                                break
                elif x["k"] == "UnaryOperator" and x["op"] == "*":
                    b = X.strip(X.kids(x)[0])
                    if b["k"] == "DeclRefExpr" and X.key(b, f) == var:
                        facts, gs = C.guard_facts(f, x)
                        if not (("nz", var) in facts or ("true", var) in facts):
                            if f.cfg.can_reach(c, x):
                                bad_site = x
                                break
            rep.add("C13-R5", key, f.loc(bad_site or c), "look-up result `%s` %s" % (
                X.re_strip(var), "is dereferenced at line %s without a dominating null test" % bad_site.get("l") if bad_site is not None
                else "is null-tested before every dereference"), bad_site is None,
                detail="a name that does not (or no longer) exist yields a null pointer", func=f.q)
    rep.count("by_name_lookups", n)


REGISTRIES = [
    # (container field, how objects get in, root destructor/teardown of the pointee, accepted unlink kinds)
    ("colvarmodule::colvars", "colvar::~colvar"),
    ("colvarmodule::biases", "colvarbias::~colvarbias"),
    ("colvarmodule::named_atom_groups", "colvarmodule::atom_group::~atom_group"),
    ("colvar::biases", "colvarbias::~colvarbias"),
    ("colvardeps::children", "colvardeps::~colvardeps"),
    ("colvardeps::parents", "colvardeps::~colvardeps"),
    ("colvardeps::parents", "colvar::~colvar"),
]
UNLINK = ("erase", "clear", "pop_back")
LINK = ("push_back", "insert", "emplace_back")


def container_ops(F, field, names):
    out = []
    for f in F.funcs.values():
        for c in X.calls(f):
            if c["k"] == "CXXMemberCallExpr" and X.callee_name(c) in names:
                r = X.receiver(c)
                if r is not None and X.mentions(r, lambda x: x["k"] == "MemberExpr" and x.get("q") == field):
                    out.append((f, c))
                elif r is not None and field == "colvarmodule::colvars" and X.mentions(
                        r, lambda x: x["k"] in ("CXXMemberCallExpr",) and x.get("cq") == "colvarmodule::variables"):
                    out.append((f, c))
    return out


def r3(F, rep):
    rep.rule("C13-R3", "registry pairing: for every container of raw pointers to deletable objects there are insertions, "
                       "and an erase of that container is reachable from the destructor of the object it points to, so "
                       "no reference to a deleted object survives")
    cg = callgraph.get(F)
    for field, root in REGISTRIES:
        roots = F.func_q(root)
        if not roots:
            raise AnalysisBroken("anchor %s vanished" % root)
        ins = container_ops(F, field, LINK)
        outs = container_ops(F, field, UNLINK)
        reach = cg.reachable([g.m for g in roots])
        hit = [(f, c) for f, c in outs if f.m in reach]
        ok = bool(ins) and bool(hit)
        rep.add("C13-R3", "%s|%s" % (field, root), roots[0].loc(),
                "%s: %d insertion site(s); unlinked from %s via %s" % (
                    field, len(ins), root, ", ".join(sorted({f.q for f, c in hit})) or "NOTHING"),
                ok, detail="a dangling pointer would be used at the next step", func=root)
    # ~colvar deletes dependent biases before unlinking itself
    for f in F.need("colvar::~colvar"):
        dels = [n for n in f.walk() if n["k"] == "CXXDeleteExpr" and X.mentions(n, lambda x: x["k"] == "MemberExpr" and x.get("q") == "colvar::biases")]
        rep.add("C13-R3", "colvar::~colvar|deletes-biases", f.loc(), "a deleted variable first deletes the biases that use it", bool(dels), func=f.q)
    for f in F.need("colvar::cvc::~cvc"):
        dels = [n for n in f.walk() if n["k"] == "CXXDeleteExpr" and X.mentions(n, lambda x: x["k"] == "MemberExpr" and x.get("q") == "colvar::cvc::atom_groups")]
        rep.add("C13-R3", "cvc::~cvc|deletes-groups", f.loc(), "a deleted component deletes its registered atom groups", bool(dels), func=f.q)


def r6(F, rep):
    rep.rule("C13-R6", "objects that the module can put to sleep (variables and biases: their awake feature is toggled every "
                       "step) must not release their children's dependencies again when torn down while inactive: a call "
                       "to free_children_deps() in their teardown is guarded by is_enabled()")
    n = 0
    for q in ("colvarbias::clear", "colvarbias::~colvarbias", "colvar::~colvar"):
        for f in F.func_q(q):
            for c in X.calls(f):
                if X.callee_name(c) == "free_children_deps":
                    n += 1
                    facts, gs = C.guard_facts(f, c)
                    ok = any(t[0] == "true" and "is_enabled(" in t[1] for t in facts)
                    rep.add("C13-R6", "%s|free_children_deps" % q, f.loc(c),
                            "free_children_deps() in %s is %sguarded by is_enabled()" % (q, "" if ok else "NOT "), ok,
                            detail="an inactive object has already released them when it was disabled", func=q)
            if not any(X.callee_name(c) == "free_children_deps" for c in X.calls(f)):
                rep.add("C13-R6", "%s|none" % q, f.loc(), "%s does not call free_children_deps()" % q, True, func=q)
    toggles = [c for g in F.need("colvarmodule::calc_colvars") + F.need("colvarmodule::calc_biases") for c in X.calls(g)
               if X.callee_name(c) in ("enable", "disable") and any("awake" in (a.get("n") or "") for a in
                                                                     [X.strip(x) for x in X.call_args(c)][:1])]
    rep.add("C13-R6", "awake-toggles", "", "%d enable/disable(f_*_awake) sites in the module's step functions" % len(toggles),
            len(toggles) >= 2, func="colvarmodule::calc_colvars")


def r4(F, rep):
    rep.rule("C13-R4", "atom reference counts balance: every cvm::atom constructor that stores a live proxy index acquires "
                       "it exactly once (init_atom for a new request, increase_refcount for a copy), and the destructor "
                       "releases it once when index >= 0")
    ctors = [f for f in F.funcs.values() if f.cls == "colvarmodule::atom" and f.ctor]
    if len(ctors) < 3:
        raise AnalysisBroken("cvm::atom constructors not found")
    for f in ctors:
        acq = [c for c in X.calls(f) if X.callee_name(c) in ("init_atom", "increase_refcount")]
        # how is index set?
        src = None
        for it in f.inits:
            if it.get("member") == "index" and it.get("init") is not None:
                src = it["init"]
        for n in f.walk():
            if n["k"] == "BinaryOperator" and n["op"] == "=":
                l = X.strip(X.kids(n)[0])
                if l["k"] == "MemberExpr" and l.get("n") == "index":
                    src = X.kids(n)[1]
        sig = ",".join(f.typestr(p["t"]) for p in f.params) or "void"
        if src is None:
            rep.add("C13-R4", "ctor|%s" % sig, f.loc(), "atom(%s) does not set index" % sig, False, func=f.q)
            continue
        lit = C._lit(src)
        if lit is not None and lit < 0:
            ok = not acq
            what = "default atom has index -1 and acquires nothing"
        elif X.mentions(src, lambda x: x["k"] == "CXXMemberCallExpr" and X.callee_name(x) == "init_atom"):
            ok = len(acq) == 1
            what = "index obtained from init_atom(): acquired %d time(s)" % len(acq)
        else:
            ok = len(acq) == 1 and X.callee_name(acq[0]) == "increase_refcount"
            what = "index copied from another atom: increase_refcount called %d time(s)" % sum(
                1 for c in acq if X.callee_name(c) == "increase_refcount")
        rep.add("C13-R4", "ctor|%s" % sig, f.loc(), "atom(%s): %s" % (sig[:60], what), ok,
                detail="an unbalanced count releases an atom that is still in use, or never releases it", func=f.q)
    for f in [g for g in F.funcs.values() if g.cls == "colvarmodule::atom" and g.dtor]:
        rel = [c for c in X.calls(f) if X.callee_name(c) == "clear_atom"]
        ok = len(rel) == 1
        if ok:
            facts, gs = C.guard_facts(f, rel[0])
            ok = any(t[0] == "cmp" and t[1] == ">=" and t[2] == "this.index" and t[3] == "0" for t in facts)
        rep.add("C13-R4", "dtor", f.loc(), "~atom releases the index once, only when index >= 0", ok, func=f.q)


def r7(F, rep):
    rep.rule("C13-R7", "automatic state changes touch dynamic features only, in both directions: enable() called for a "
                       "dependency (toplevel == false) returns an error for a feature that is not dynamic before it resolves "
                       "any dependency, and the disable() that decr_ref_count() performs when a reference count reaches zero is "
                       "guarded by is_dynamic(); user-set and static features keep the state they were given")
    d = F.one("colvardeps::decr_ref_count")
    dis = [c for c in X.calls(d) if X.callee_name(c) == "disable"]
    if not dis:
        rep.add("C13-R7", "auto-disable", d.loc(), "decr_ref_count() never disables a dynamic feature whose reference count reaches zero", False,
                detail="features enabled on behalf of a deleted object stay enabled: deleting is not the inverse of defining", func=d.q)
    for c in dis:
        facts, _ = C.guard_facts(d, c, X.const_locals(d))
        dyn = any(t[0] == "true" and "is_dynamic(" in t[1] for t in facts)
        zero = any((t[0] in ("z", "nonpos") and ("ref_count" in t[1] or "rc" in t[1])) or
                   (t[0] == "cmp" and t[1] in ("==", "<=") and "0" in (t[2], t[3])) or (t[0] == "eq" and "0" in t[1:]) for t in facts)
        rep.add("C13-R7", "auto-disable", d.loc(c), "decr_ref_count(): disable() is reached only for a dynamic feature (%s) whose count reached zero (%s)" % (dyn, zero),
                dyn and zero, detail="a feature the user switched on would be switched off when an unrelated object that depended on it is deleted", func=d.q)
    e = F.one("colvardeps::enable")
    res = X.const_locals(e)
    rets = []
    for r in e.walk():
        if r["k"] != "ReturnStmt":
            continue
        facts, _ = C.guard_facts(e, r, res)
        if any(t[0] == "false" and X.re_strip(t[1]) == "toplevel" for t in facts) and any(t[0] == "false" and "is_dynamic(" in t[1] for t in facts):
            rets.append(r)
    rec = [c for c in X.calls(e) if c.get("cq") == "colvardeps::enable"]
    ok = bool(rets) and bool(rec) and all(any(e.cfg.can_reach(r0, c) is False and e.cfg.block_of(r0) is not None for r0 in rets) for c in rec)
    # the refusal must come before the dependencies are resolved: its condition block dominates every recursive call
    before = False
    if rets:
        cond_blocks = [cid for cid, pol in e.cfg.guards(rets[0])]
        before = all(any(e.cfg.dominates(e.nodes[cid], c) for cid in cond_blocks) for c in rec)
    rep.add("C13-R7", "auto-enable", e.loc(rets[0]) if rets else e.loc(), "enable(): a non-dynamic feature requested as a dependency is refused (%d return site) before any of the %d recursive enable() calls" % (
        len(rets), len(rec)), bool(rets) and bool(rec) and before, func=e.q)


def r8(F, rep):
    rep.rule("C13-R8", "deleting a parent leaves its children as they would be without it: biases can be deleted while their "
                       "variables survive, so a feature of the variable that (a) a bias requires of its children, (b) is dynamic "
                       "(switched off automatically when its reference count reaches zero) and (c) the variable also enables for "
                       "itself at top level while it is initialised -- holding no reference -- is switched off by the deletion of "
                       "the last bias although the variable would have it on had the bias never existed")
    bt = F.one("colvarbias::init_dependencies")
    ct = F.one("colvar::init_dependencies")
    child_req = set()
    for c in X.calls(bt):
        if X.callee_name(c) == "require_feature_children":
            for a in X.call_args(c)[1:]:
                n0 = arg_enum(a)[0]
                if n0:
                    child_req.add(n0)
    dynamic = set()
    for c in X.calls(ct):
        if X.callee_name(c) == "init_feature":
            a = X.call_args(c)
            if len(a) >= 3 and "f_type_dynamic" in X.key(a[2], ct):
                dynamic.add(arg_enum(a[0])[0])
    self_enabled = {}
    for g in F.funcs.values():
        if g.cls == "colvar" and (g.name.startswith("init") or g.ctor):
            for c in X.calls(g):
                if c["k"] == "CXXMemberCallExpr" and X.callee_name(c) == "enable" and c.get("cq") == "colvardeps::enable" and \
                        (X.receiver(c) is None or X.strip(X.receiver(c))["k"] == "CXXThisExpr"):
                    a = X.call_args(c)
                    n0 = arg_enum(a[0])[0] if a else None
                    # top level: the toplevel argument is defaulted (true)
                    top = len([x for x in a if x["k"] != "CXXDefaultArgExpr"]) < 3
                    if n0 and top:
                        self_enabled[n0] = (g, c)
    if not child_req:
        raise AnalysisBroken("colvarbias::init_dependencies: no require_feature_children found")
    n = 0
    for ft in sorted(child_req):
        n += 1
        bad = ft in dynamic and ft in self_enabled
        loc = self_enabled[ft][0].loc(self_enabled[ft][1]) if ft in self_enabled else ct.loc()
        rep.add("C13-R8", "colvarbias->colvar|%s" % ft, loc, "feature %s of a variable: required by biases of their children, %s, %s" % (
            ft, "dynamic" if ft in dynamic else "not dynamic", "enabled by the variable itself at top level in %s" % self_enabled[ft][0].q if ft in self_enabled else "not self-enabled"),
            not bad, detail="decr_ref_count() auto-disables it when the last bias is deleted: the variable stops being computed", func="colvar")
    rep.count("bias_children_requirements", n)


def r9(F, rep):
    rep.rule("C13-R9", "release loops visit every element: a loop that deletes elements of a container either counts through it "
                       "(index or iterator compared with size()/end(), container length untouched in the body) or drains it "
                       "(condition on size()/empty() alone, body removes one element per turn); a loop that advances an index "
                       "compared with V.size() AND removes elements of V stops half-way and leaks the rest (their atoms and "
                       "dependencies are never released)")
    shrinkers = ("pop_back", "erase", "pop_front")
    n = 0
    for f in F.funcs.values():
        if "/src/" not in f.file or f.body is None:
            continue
        done = set()
        for d in f.walk():
            if d["k"] != "CXXDeleteExpr":
                continue
            loops = [a for a in f.ancestors(d) if a["k"] in ("ForStmt", "WhileStmt", "DoStmt", "CXXForRangeStmt")]
            if not loops or loops[0]["i"] in done:
                continue
            L = loops[0]
            done.add(L["i"])
            n += 1
            if L["k"] != "ForStmt" or L["c"][1] is None:
                rep.add("C13-R9", "%s|%s" % (f.q, X.re_strip(X.key(X.kids(d)[0], f))[:40]), f.loc(L), "%s: %s around `delete %s`" % (
                    f.q, {"WhileStmt": "drain/while loop", "DoStmt": "do loop", "CXXForRangeStmt": "range-for loop", "ForStmt": "for loop without condition"}[L["k"]],
                    X.text(X.kids(d)[0], f)[:30]), True, func=f.q)
                continue
            cond, inc, body = L["c"][1], L["c"][2], L["c"][-1]
            # container whose size bounds the counter
            bound = None
            for m in _walk13(cond):
                if m["k"] == "CXXMemberCallExpr" and X.callee_name(m) in ("size", "end") and X.receiver(m) is not None:
                    bound = X.key(X.receiver(m), f)
            shr = [c for c in X.calls(f, body) if c["k"] == "CXXMemberCallExpr" and X.callee_name(c) in shrinkers and
                   X.receiver(c) is not None and X.key(X.receiver(c), f) == bound]
            # erase(it) whose result re-bases the iterator (it = v.erase(it)) keeps the loop complete
            rebased = [c for c in shr if X.callee_name(c) == "erase" and any(a["k"] in ("BinaryOperator", "CXXOperatorCallExpr") and a.get("op") == "=" for a in f.ancestors(c))]
            bad = bound is not None and inc is not None and [c for c in shr if c not in rebased]
            rep.add("C13-R9", "%s|%s" % (f.q, X.re_strip(X.key(X.kids(d)[0], f))[:40]), f.loc(L),
                    "%s: counting loop over `%s` around `delete %s`; the body %s" % (
                        f.q, X.re_strip(bound or "?"), X.text(X.kids(d)[0], f)[:30],
                        "also removes elements of it (%s): every removal skips one element" % ", ".join(X.callee_name(c) for c in shr) if bad else "leaves its length unchanged"),
                    not bad, detail="the elements left behind are never deleted: their atom groups stay requested from the engine and their dependencies stay referenced", func=f.q)
    if n < 12:
        raise AnalysisBroken("C13-R9: only %d release loops found" % n)


def _walk13(n):
    yield n
    for c in X.kids(n):
        if c is not None:
            yield from _walk13(c)


def unique_rank(F, rep, rid):
    """Shared with C20-R8."""
    rep.rule(rid, "default names stay unique across deletions: the rank that names a new bias (`<type><rank>`) is taken from a "
                  "counter that is incremented before it is used and never goes down while the module lives -- not from the "
                  "number of biases that currently exist (a deleted bias would free its number for a name still in use)")
    from .rules_c10 import lvalue_writes
    n = 0
    for f in F.funcs.values():
        if "/src/" not in f.file or f.body is None:
            continue
        seen = set()
        for w, t in lvalue_writes(f):
            ts = X.strip(t)
            if ts["k"] != "MemberExpr" or ts.get("q") != "colvarbias::rank" or w.get("op") != "=" or f.cls == "colvarbias":
                continue
            rhs = X.strip(X.kids(w)[1] if w["k"] == "BinaryOperator" else X.call_args(w)[1])
            cl = X.const_locals(f)
            hops = 0
            while rhs["k"] == "DeclRefExpr" and rhs.get("d") in cl and hops < 3:
                rhs = X.strip(cl[rhs["d"]])
                hops += 1
            key = X.re_strip(X.key(rhs, f))
            if (f.q.split("<")[0], key) in seen:
                continue
            seen.add((f.q.split("<")[0], key))
            n += 1
            ok = False
            why = "`%s` is not a variable" % X.text(rhs, f)[:50]
            if rhs["k"] == "DeclRefExpr":
                d = rhs.get("d")
                incs = [w2 for w2, t2 in lvalue_writes(f) if X.strip(t2)["k"] == "DeclRefExpr" and X.strip(t2).get("d") == d and
                        (w2.get("op") in ("+=", "++") or (w2["k"] in ("UnaryOperator", "CXXOperatorCallExpr") and w2.get("op") == "++"))]
                decs = [w2 for w2, t2 in lvalue_writes(f) if X.strip(t2)["k"] == "DeclRefExpr" and X.strip(t2).get("d") == d and w2.get("op") in ("-=", "--", "=")]
                ok = bool(incs) and not decs and any(f.cfg.dominates(i, w) for i in incs)
                why = "`%s` is incremented before the assignment (%d site(s)) and never lowered here" % (rhs.get("n"), len(incs)) if ok else \
                      "`%s` is not an only-growing counter in this function" % rhs.get("n")
                # ... and it outlives the call: a reference (to a member, a map element), a static or a parameter passed by
                # reference -- a by-value local starts again at every call
                decl = [x for x in f.walk() if x["k"] == "VarDecl" and x.get("d") == d]
                if ok and decl and decl[0].get("st") == "local" and not decl[0].get("ref"):
                    ok = False
                    why = "`%s` is a local that starts again at every call of this function" % rhs.get("n")
            rep.add(rid, "%s|rank" % f.q.split("<")[0], f.loc(w), "%s sets the rank of a new bias: %s" % (f.q.split("<")[0], why), ok,
                    detail="two biases with the same default name: by-name script commands reach only the older one", func=f.q)
    if n < 1:
        raise AnalysisBroken("%s: assignment of colvarbias::rank not found" % rid)


def r10(F, rep):
    unique_rank(F, rep, "C13-R10")


def r11(F, rep):
    rep.rule("C13-R11", "parallel arrays are reset together: in every proxy class, each member container that a slot-adding function "
                        "(add_*_slot) appends to is cleared by the class's reset(): a container left behind keeps stale "
                        "entries in front of the ones appended later, so the arrays no longer line up by index (reference "
                        "counts of atoms requested after a reset land on the wrong entries)")
    n = 0
    for cls in sorted({f.cls for f in F.funcs.values() if f.cls and f.cls.startswith("colvarproxy") and f.name.startswith("add_") and f.name.endswith("_slot")}):
        pushed = {}
        for f in F.funcs.values():
            if f.cls == cls and f.name.startswith("add_") and f.name.endswith("_slot") and f.body is not None:
                for c in X.calls(f):
                    if c["k"] == "CXXMemberCallExpr" and X.callee_name(c) in ("push_back", "emplace_back") and X.receiver(c) is not None:
                        k = X.key(X.receiver(c), f)
                        if k.startswith("this.") and k.count(".") == 1:
                            pushed.setdefault(k, f.q)
        resets = [f for f in F.funcs.values() if f.cls == cls and f.name == "reset" and f.body is not None]
        if not pushed or not resets:
            continue
        r = resets[0]
        cleared = {X.key(X.receiver(c), r) for c in X.calls(r) if c["k"] == "CXXMemberCallExpr" and X.callee_name(c) == "clear" and X.receiver(c) is not None}
        for k in sorted(pushed):
            n += 1
            ok = k in cleared
            rep.add("C13-R11", "%s|%s" % (cls, X.re_strip(k)), r.loc(), "%s appends to `%s`; %s::reset() %s it" % (pushed[k], X.re_strip(k), cls, "clears" if ok else "does NOT clear"), ok,
                    detail="after a reset the slot index returned by the next add_*_slot() no longer addresses the entry it appended to this container", func=r.q)
    if n < 10:
        raise AnalysisBroken("C13-R11: only %d slot containers found in the proxy classes" % n)


def r12(F, rep, rid="C13-R12"):
    rep.rule(rid, "configuration generated on behalf of an object does not outlive a rejected parse: a member buffer that other "
                  "functions append to and that one function hands to its parsing stages and then clears is emptied, in that "
                  "function, before anything can append to it (a clear that precedes every hand-over and is not reachable from a "
                  "call that can reach an appender) -- or else on every way out of the function; otherwise a block left behind "
                  "by a rejected configuration is parsed together with the next one and re-creates an object that was deleted")
    from .rules_c10 import lvalue_writes, member_root
    cg = callgraph.get(F)
    app = {}
    for f in F.funcs.values():
        if "/src/" not in f.file or f.body is None:
            continue
        for w, t in lvalue_writes(f):
            mr = member_root(t)
            if mr is None:
                continue
            if (w["k"] == "CXXOperatorCallExpr" and w.get("op") == "+=") or (w["k"] == "CXXMemberCallExpr" and X.callee_name(w) in ("append", "push_back")):
                app.setdefault(mr["q"], set()).add(f.m)
    n = 0
    for f in sorted(F.funcs.values(), key=lambda g: g.q):
        if "/src/" not in f.file or f.body is None or not f.cls or not f.cfg.ok:
            continue
        clears = {}
        for c in X.calls(f):
            if c["k"] == "CXXMemberCallExpr" and X.callee_name(c) == "clear":
                r = X.receiver(c)
                rs = X.strip(r) if r is not None else None
                if rs is not None and rs["k"] == "MemberExpr" and X.kids(rs) and X.strip(X.kids(rs)[0])["k"] == "CXXThisExpr":
                    clears.setdefault(rs["q"], []).append(c)
        for q, cs in sorted(clears.items()):
            prod = app.get(q, set()) - {f.m}
            if not prod:
                continue
            uses = []
            for c2 in X.calls(f):
                if c2["k"] == "CXXOperatorCallExpr" or c2 in cs or X.callee_name(c2) in ("clear", "size", "empty"):
                    continue
                for a in X.call_args(c2):
                    sa = X.strip(a)
                    if sa["k"] == "MemberExpr" and sa.get("q") == q:
                        uses.append(c2)
            if not uses or not any(f.cfg.can_reach(u, c) for u in uses for c in cs):
                continue
            n += 1
            xs = [c for c in X.calls(f) if c.get("callee") and c not in cs and
                  any(cg.reaches(t, lambda m, g: m in prod) for t in cg.targets(c))]
            entry = [c for c in cs if all(f.cfg.dominates(c, u) for u in uses) and not any(f.cfg.can_reach(x, c) for x in xs)]
            rets = [x for x in f.walk() if x["k"] == "ReturnStmt" and f.cfg.is_reachable(x)]
            exitf = bool(rets) and all(any(f.cfg.dominates(c, r) and not any(f.cfg.can_reach(c, x) and f.cfg.can_reach(x, r) for x in xs) for c in cs) for r in rets)
            ok = bool(entry) or exitf
            name = q.split("::")[-1]
            rep.add(rid, "%s|%s" % (f.q, name), f.loc(entry[0] if entry else cs[0]),
                    "%s hands `%s` to %d call(s) and clears it; %s" % (f.q, name, len(uses),
                        "it is emptied before anything can append to it" if entry else
                        ("it is emptied on every way out" if exitf else
                         "NO clear precedes the hand-over, and %d return(s) leave it filled" % len([r for r in rets if not any(f.cfg.dominates(c, r) for c in cs)]))), ok,
                    detail="appended by %s; what a rejected configuration left in it is parsed with the next configuration" % sorted(F.funcs[m].q for m in prod if m in F.funcs), func=f.q)
    if n < 1:
        raise AnalysisBroken("%s: no consume-and-clear staging buffer found (the module's generated-configuration buffer expected)" % rid)


def r13(F, rep, rid="C13-R13"):
    rep.rule(rid, "an object leaves a registry by identity: every single-element erase() on a container of raw pointers is "
                  "guarded by an equality test between two pointer values (the element and `this` or a pointer parameter), "
                  "as every such site of the library is today -- a match on a property of the object (its name) removes "
                  "another object's entry when a rejected duplicate is destroyed")
    from .rules_c03 import all_guards
    n = 0
    for f in sorted(F.funcs.values(), key=lambda g: g.q):
        if "/src/" not in f.file or f.body is None or not f.cfg.ok:
            continue
        for c in X.calls(f):
            if c["k"] != "CXXMemberCallExpr" or X.callee_name(c) != "erase" or len(X.call_args(c)) != 1:
                continue
            rc = c.get("rc") or ""
            if not (rc.startswith("std::vector<") and rc.rstrip(">").rstrip().endswith("*")):
                continue
            n += 1
            ident = False
            res = X.const_locals(f)

            def expand(node, depth=0):
                for x in f.walk(node):
                    yield x
                    if x["k"] == "DeclRefExpr" and x.get("d") in res and depth < 4:
                        yield from expand(res[x["d"]], depth + 1)
            for cn, pol in all_guards(f, c):
                if not pol:
                    continue
                for x in expand(cn):
                    if x["k"] == "BinaryOperator" and x.get("op") == "==":
                        ts = [f.typestr(X.strip(k).get("t")) if X.strip(k).get("t") is not None else "" for k in X.kids(x)]
                        if all(t.rstrip().endswith("*") or t.rstrip().endswith("*const") for t in ts):
                            ident = True
            recv = X.re_strip(X.key(X.receiver(c), f))
            rep.add(rid, "%s|%s" % (f.q, recv), f.loc(c), "%s erases one element of `%s` (%s) %s" % (
                f.q, recv, rc, "under a pointer-identity test" if ident else "WITHOUT a pointer-identity test on the element"), ident,
                detail="the entry removed may belong to another object (same name, different instance): a configuration that is "
                       "rejected for a duplicate name then damages the object defined before it", func=f.q)
    if n < 4:
        raise AnalysisBroken("%s: only %d single-element erase() calls on containers of raw pointers found" % (rid, n))


def run(F, rep, tier):
    r13(F, rep)
    r12(F, rep)
    r9(F, rep)
    r11(F, rep)
    r10(F, rep)
    r1(F, rep)
    r2(F, rep)
    r3(F, rep)
    r4(F, rep)
    r5(F, rep)
    r6(F, rep)
    r7(F, rep)
    r8(F, rep)
