"""Index typestate for grid element accesses (shared by C05-R3 and C15-R1).

A bin-index vector computed from the current variable values (get_colvars_index(),
current_bin_scalar(), a member such as bin/force_bin/curr_bin) is *unchecked* until
index_ok() of that same vector has been tested.  Element accesses of a grid
(value, set_value, acc_value, acc_force, ...) with a run-time index vector require a
*checked* index:

  (a) an edge-dominating guard  <grid>.index_ok(K) is true   (this includes the
      canonical loop  for (ix = g->new_index(); g->index_ok(ix); g->incr(ix)) )
  (b) a dominating guard on a local boolean all of whose assignments are
      <grid>.index_ok(K)  (or the literal false)
  (c) the index was just clamped by wrap_to_edge()/ *_bound()  (born checked)
  (d) every caller of the function guards the call with index_ok(K) (K a data member)
  (e) an entry of tables/gridindex_exempt.json (function, index) with a reason
"""
from . import expr as X
from . import cond as C
from . import callgraph
from .common import load_table

ACCESS = ("value", "set_value", "acc_value", "acc_force", "value_output", "incr_count", "gradient_finite_diff",
          "log_gradient_finite_diff", "vector_gradient_finite_diff", "value_output_smoothed", "vector_value",
          "vector_value_smoothed", "add_constant", "average")
CLAMP = ("wrap_to_edge", "wrap_edge")


def is_grid_class(c):
    return "colvar_grid" in c or "integrate_potential" in c


def sites(F, want_func):
    """Yield (f, call, index key, ok, reason) for grid element accesses in functions accepted by want_func."""
    cg = callgraph.get(F)
    exempt = {(e["function"], e["index"]): e["reason"] for e in load_table("gridindex_exempt.json")["exempt"]}
    for f in F.funcs.values():
        if "/src/" not in f.file or not f.cfg.ok or not want_func(f):
            continue
        res = X.const_locals(f)
        for c in X.calls(f):
            if c["k"] != "CXXMemberCallExpr" or X.callee_name(c) not in ACCESS or not is_grid_class(c.get("rc", "")):
                continue
            a = X.call_args(c)
            if not a or "vector<int" not in f.type(X.strip(a[0], explicit=False)):
                continue
            K = X.key(a[0], f, res)
            ok, why = checked(F, cg, f, c, a[0], K, res, 0)
            if not ok and (f.q, X.re_strip(K)) in exempt:
                ok, why = True, "exempt: " + exempt[(f.q, X.re_strip(K))]
            yield f, c, K, ok, why


def checked(F, cg, f, site, idx_expr, K, res, depth):
    facts, gs = C.guard_facts(f, site, res)
    for t in facts:
        if t[0] == "true" and "index_ok(" in t[1] and t[1].endswith("index_ok(%s)" % K):
            return True, "dominated by %s" % X.re_strip(t[1])
    # (b) local boolean derived from index_ok(K)
    for t in facts:
        if t[0] == "true" and "#" in t[1] and "(" not in t[1]:
            bkey = t[1]
            assigns = []
            for n in f.walk():
                if n["k"] == "VarDecl" and "%s#%s" % (n["n"], n["d"]) == bkey and X.kids(n):
                    assigns.append(X.kids(n)[0])
                elif n["k"] == "BinaryOperator" and n["op"] == "=" and X.key(X.kids(n)[0], f) == bkey:
                    assigns.append(X.kids(n)[1])
            if assigns and all(C._lit(x) == 0 or X.key(x, f, res).endswith("index_ok(%s)" % K) for x in assigns) and \
                    any(C._lit(x) != 0 for x in assigns):
                return True, "dominated by boolean `%s`, only ever set from index_ok(%s)" % (X.re_strip(bkey), X.re_strip(K))
    # (c) clamped just before
    for c in X.calls(f):
        if c["k"] == "CXXMemberCallExpr" and X.callee_name(c) in CLAMP:
            args = X.call_args(c)
            if args and X.key(args[-1], f, res) == K and f.cfg.dominates(c, site):
                return True, "index clamped by %s()" % X.callee_name(c)
    # (d) callers guard (data-member index)
    if K.startswith("this.") and depth < 3:
        callers = [(g, c) for g, c in cg.callers(f.m) if g.cls is not None]
        if callers:
            for g, c in callers:
                r = X.receiver(c) if c["k"] == "CXXMemberCallExpr" else None
                if r is None or X.strip(r)["k"] != "CXXThisExpr":
                    return False, "called on another object from %s" % g.q
                gres = X.const_locals(g)
                okc, _ = checked(F, cg, g, c, None, K, gres, depth + 1)
                if not okc:
                    return False, "caller %s does not test index_ok(%s) before the call" % (g.q, X.re_strip(K))
            return True, "every caller tests index_ok(%s) before the call" % X.re_strip(K)
    return False, "no index_ok(%s) test dominates the access" % X.re_strip(K)
