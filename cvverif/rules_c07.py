"""C07  Total-force measurement is the inverse of force application.

R1  exhaustiveness: a component class that provides f_cvc_inv_gradient overrides calc_force_invgrads(); one that
    provides f_cvc_Jacobian overrides calc_Jacobian_derivative()
R2  forces are read before use: in every calc_force_invgrads(), each use of a group's total force is preceded by
    read_total_forces() on that group
R3  collect_cvc_total_forces and collect_cvc_Jacobians use the same coefficient normalisation; the Jacobian term is
    skipped exactly under hide_Jacobian && subtract_applied_force
R4  timing: calc_cvcs and collect_cvc_data run the total-force stage before the value/Jacobian stages iff the variable
    does not report same-step forces (using the previous step's Jacobian), after them otherwise -- and the two
    functions make the same choice
R7  a component that selects one of several references by a search (arg-min) subscripts the reference array with the
    selected index wherever it computes gradients or inverse gradients
R8  the table behind the derivative of the optimal rotation is prepared in every function that reads it
"""
from . import expr as X
from . import cond as C
from .facts import AnalysisBroken


def provides(F, cls, feature):
    """Does a constructor/init of cls (not a base) call provide(feature) with true/default?"""
    for f in F.funcs.values():
        if f.cls == cls and (f.ctor or f.name == "init"):
            for c in X.calls(f):
                if X.callee_name(c) == "provide" and X.call_args(c):
                    a = X.strip(X.call_args(c)[0])
                    if a["k"] == "DeclRefExpr" and a.get("n") == feature:
                        args = X.call_args(c)
                        if len(args) > 1 and C._lit(args[1]) == 0:
                            continue
                        return f, c
    return None


def r1(F, rep):
    rep.rule("C07-R1", "a component class that announces total-force capability (provide(f_cvc_inv_gradient)) has its own or "
                       "an inherited non-base calc_force_invgrads(); one that announces provide(f_cvc_Jacobian) has a "
                       "non-base calc_Jacobian_derivative() (the base versions only raise 'not implemented' at run time)")
    n = 0
    for cls in sorted(F.subclasses("colvar::cvc", strict=True)):
        for feat, meth in (("f_cvc_inv_gradient", "calc_force_invgrads"), ("f_cvc_Jacobian", "calc_Jacobian_derivative")):
            p = provides(F, cls, feat)
            if p is None:
                continue
            n += 1
            fs = F.find_method(cls, meth)
            definer = fs[0].cls if fs else None
            ok = definer is not None and definer != "colvar::cvc"
            rep.add("C07-R1", "%s|%s" % (cls, feat), p[0].loc(p[1]), "%s provides %s and %s() comes from %s" % (cls, feat, meth, definer), ok,
                    detail="requesting the total force of this variable would fail at run time, not at configuration time", func=cls)
    if n < 12:
        raise AnalysisBroken("only %d provide(f_cvc_inv_gradient/Jacobian) sites found" % n)


def r2(F, rep):
    rep.rule("C07-R2", "every calc_force_invgrads() reads the total forces of a group (read_total_forces()) before it uses "
                       "that group's total_force() / atoms' total_force")
    n = 0
    for f in F.funcs.values():
        if f.name != "calc_force_invgrads" or f.cls in (None, "colvar::cvc") or not f.cfg.ok:
            continue
        reads = {}
        for c in X.calls(f):
            if X.callee_name(c) == "read_total_forces" and X.receiver(c) is not None:
                reads.setdefault(X.key(X.receiver(c), f), []).append(c)
        uses = []
        for c in X.calls(f):
            if X.callee_name(c) == "total_force" and X.receiver(c) is not None and "atom_group" in c.get("rc", ""):
                uses.append((X.key(X.receiver(c), f), c))
        for x in f.walk():
            if x["k"] == "MemberExpr" and x.get("q") == "colvarmodule::atom::total_force":
                # (*group)[i].total_force: find the group
                g = None
                for y in f.walk(x):
                    if y["k"] == "MemberExpr" and y.get("dk") == "Field" and "atom_group" in f.type(y):
                        g = X.key(y, f)
                if g:
                    uses.append((g, x))
        seen = set()
        for g, u in uses:
            if g in seen:
                continue
            seen.add(g)
            n += 1
            ok = any(f.cfg.dominates(r, u) for r in reads.get(g, ()))
            rep.add("C07-R2", "%s|%s" % (f.q, X.re_strip(g)), f.loc(u), "%s: total force of `%s` is used %s read_total_forces()" % (
                f.q, X.re_strip(g), "after" if ok else "WITHOUT a preceding"), ok,
                detail="the forces of the previous call would be used", func=f.q)
    if n < 5:
        raise AnalysisBroken("only %d total-force uses found in calc_force_invgrads implementations" % n)


def r3(F, rep):
    rep.rule("C07-R3", "collect_cvc_total_forces() and collect_cvc_Jacobians() weight each component with the same "
                       "normalisation sup_coeff / active_cvc_square_norm, skip disabled components, and the Jacobian term "
                       "is left out of the total force exactly under hide_Jacobian && subtract_applied_force")
    tf = F.one("colvar::collect_cvc_total_forces")
    jf = F.one("colvar::collect_cvc_Jacobians")
    import re

    def coeff(f, field):
        for n in f.walk():
            if n["k"] == "CXXOperatorCallExpr" and n.get("op") == "+=":
                a = X.call_args(n)
                if X.key(a[0], f) == "this." + field:
                    k = X.re_strip(X.key(a[1], f))
                    if "sup_coeff" in k:
                        return re.sub(r"\.(total_force|Jacobian_derivative)\(\)", ".X()", k)
        return None
    ct, cj = coeff(tf, "ft"), coeff(jf, "fj")
    rep.add("C07-R3", "normalisation", tf.loc(), "total force term `%s` ; Jacobian term `%s`" % (ct, cj),
            ct is not None and ct == cj and "active_cvc_square_norm" in ct, func=tf.q)
    for f in (tf, jf):
        from .rules_c03 import structural_guards
        skips = [n for n in f.walk() if n["k"] == "ContinueStmt"]
        ok = False
        for s in skips:
            for cn, pol in structural_guards(f, s):
                fs = C.facts(f, cn, pol)
                ok = ok or any(t[0] == "false" and "is_enabled(" in t[1] for t in fs)
        rep.add("C07-R3", "skip-disabled|%s" % f.name, f.loc(), "%s skips disabled components" % f.name, ok, func=f.q)
    res = X.const_locals(tf)
    adds = [n for n in tf.walk() if n["k"] == "CXXOperatorCallExpr" and n.get("op") == "+=" and
            X.key(X.call_args(n)[0], tf) == "this.ft" and X.key(X.call_args(n)[1], tf) == "this.fj"]
    if not adds:
        rep.add("C07-R3", "jacobian-term", tf.loc(), "collect_cvc_total_forces() never adds the Jacobian term fj to ft", False,
                detail="the reported total force lacks the Jacobian force for every variable", func=tf.q)
    for a in adds:
        gs = tf.cfg.real_guards(a)
        ks = [(X.re_strip(X.key(tf.nodes[c], tf, res)), p) for c, p in gs]
        def both_off(k, p):
            if not ("f_cv_hide_Jacobian" in k and "f_cv_subtract_applied_force" in k and "&&" in k):
                return False
            neg = k.startswith("(! ")
            return (p is False and not neg) or (p is True and neg)
        ok = any(both_off(k, p) for k, p in ks)
        rep.add("C07-R3", "jacobian-term", tf.loc(a), "`ft += fj` is skipped exactly when hide_Jacobian && subtract_applied_force: guards %s" % ks,
                ok, func=tf.q)


def stage_order(f, total_name, others):
    """[(position, guard atoms)] of the total-force stage relative to the other stages."""
    res = X.const_locals(f)
    calls = [c for c in X.calls(f) if X.callee_name(c) in (total_name,) + others]
    first_other = [c for c in calls if X.callee_name(c) in others]
    out = []
    for c in calls:
        if X.callee_name(c) != total_name:
            continue
        before = all(f.cfg.can_reach(c, o) and not f.cfg.can_reach(o, c) for o in first_other)
        after = all(f.cfg.can_reach(o, c) and not f.cfg.can_reach(c, o) for o in first_other)
        gs = sorted((X.re_strip(X.key(f.nodes[cid], f, res)), pol) for cid, pol in f.cfg.real_guards(c)
                    if "f_cv_total_force_current_step" in X.key(f.nodes[cid], f, res) or "step_relative" in X.key(f.nodes[cid], f, res))
        out.append(("before" if before else ("after" if after else "mixed"), tuple(gs)))
    return sorted(out)


def r4(F, rep):
    rep.rule("C07-R4", "timing of the total force: with one-step-late forces the total-force stage runs before the "
                       "value/gradient/Jacobian stages (so it uses the Jacobian of the step at which the forces acted) and "
                       "only when step_relative() > 0; with same-step forces it runs after them; calc_cvcs() and "
                       "collect_cvc_data() make the same choice")
    a = F.one("colvar::calc_cvcs")
    b = F.one("colvar::collect_cvc_data")
    sa = stage_order(a, "calc_cvc_total_force", ("calc_cvc_values", "calc_cvc_gradients", "calc_cvc_Jacobians"))
    sb = stage_order(b, "collect_cvc_total_forces", ("collect_cvc_values", "collect_cvc_gradients", "collect_cvc_Jacobians"))
    for name, f, s in (("calc_cvcs", a, sa), ("collect_cvc_data", b, sb)):
        late = [x for x in s if x[0] == "before"]
        same = [x for x in s if x[0] == "after"]
        ok_late = len(late) == 1 and any("f_cv_total_force_current_step" in k and p is False for k, p in late[0][1]) or \
            (len(late) == 1 and any("f_cv_total_force_current_step" in k and "step_relative" in k for k, p in late[0][1]))
        ok_same = len(same) == 1 and any("f_cv_total_force_current_step" in k and p is True and "step_relative" not in k for k, p in same[0][1])
        rep.add("C07-R4", "%s|late-before" % name, f.loc(), "%s: one-step-late total force is collected before the new values/Jacobians: %s" % (name, late),
                bool(ok_late), detail="otherwise the Jacobian term of the new step is attributed to the forces of the previous step", func=f.q)
        rep.add("C07-R4", "%s|same-after" % name, f.loc(), "%s: same-step total force is collected after the values/Jacobians: %s" % (name, same),
                bool(ok_same), func=f.q)
    norm = lambda s: [(pos, tuple((k.replace("colvarmodule::step_relative()", "step"), p) for k, p in g)) for pos, g in s]
    rep.add("C07-R4", "siblings-agree", a.loc(), "calc_cvcs %s ; collect_cvc_data %s" % (sa, sb), norm(sa) == norm(sb),
            detail="the component stage and the collection stage must use the same force-timing convention", func=a.q)


def norm_cache(F, rep, rid):
    """The normalisation sum over active components is a cache of the components' coefficients and enabled flags."""
    rep.rule(rid, "the cached normalisation active_cvc_square_norm (used to weight total forces and Jacobian terms) is "
                  "recomputed whenever its inputs change: every colvar member function that re-initialises a component "
                  "(cvc::init on an element of cvcs: componentCoeff may change) or switches a component on or off recomputes the "
                  "sum afterwards, itself or through a callee that does so unconditionally, under no narrower condition than "
                  "the change")
    from .rules_c10 import lvalue_writes

    def recomputes(g):
        """sites in g that recompute the cache: a write to the field, or a call of a function that does so unguarded."""
        out = [w for w, t in lvalue_writes(g) if X.key(t, g) == "this.active_cvc_square_norm"]
        for c in X.calls(g):
            h = F.funcs.get(c.get("callee"))
            if h is not None and h.cls == "colvar" and h.m != g.m:
                ws = [w for w, t in lvalue_writes(h) if X.key(t, h) == "this.active_cvc_square_norm"]
                # the callee recomputes unconditionally: its write is guarded by nothing but the loop over the
                # components (and their own enabled test)
                if any(all("cvcs" in X.key(h.nodes[cid], h) for cid, pol in h.cfg.real_guards(w)) for w in ws):
                    out.append(c)
        return out
    n = 0
    for g in F.funcs.values():
        if g.cls != "colvar" or not g.cfg.ok or "/src/" not in g.file:
            continue
        changes = []
        for c in X.calls(g):
            if c["k"] != "CXXMemberCallExpr" or X.receiver(c) is None:
                continue
            rk = X.key(X.receiver(c), g)
            if "this.cvcs" not in rk:
                continue
            nm = X.callee_name(c)
            if nm == "init" or (nm in ("set_enabled", "enable", "disable") and X.call_args(c) and "f_cvc_active" in X.key(X.call_args(c)[0], g)):
                changes.append(c)
        if not changes:
            continue
        rec = recomputes(g)
        for c in changes[:1]:
            n += 1
            after = [r for r in rec if g.cfg.can_reach(c, r)]
            gc = set(g.cfg.real_guards(c))
            ok = any(set(g.cfg.real_guards(r)) <= gc | {x for x in g.cfg.real_guards(r) if "size()" in X.key(g.nodes[x[0]], g) and x in gc} for r in after)
            # the recompute may sit after the loop that contains the change: its guards must be a subset of the guards
            # of that loop
            if not ok:
                loops = [a for a in g.ancestors(c) if a["k"] in ("ForStmt", "CXXForRangeStmt")]
                if loops:
                    outer = loops[-1]
                    go = set(g.cfg.real_guards(outer["c"][1])) if outer["k"] == "ForStmt" and outer["c"][1] is not None else set()

                    def error_exit_guard(cid, pol):
                        """the guard only excludes a branch that raises an error and returns"""
                        for s in g.walk():
                            if s["k"] == "IfStmt":
                                cs = s["c"]
                                cn = cs[1] if len(cs) == 4 else cs[0]
                                if cn is not None and any(x["i"] == cid for x in g.walk(cn)):
                                    br = cs[-2] if not pol else cs[-1]
                                    return br is not None and X.mentions(br, lambda y: y["k"] == "CallExpr" and y.get("cq") == "colvarmodule::error")
                        return False
                    ok = any(all(error_exit_guard(cid, pol) for cid, pol in set(g.cfg.real_guards(r)) - go) for r in after)
            rep.add(rid, "%s|%s" % (g.q, X.callee_name(c)), g.loc(c), "%s changes a component (%s) and %s" % (
                g.q, X.callee_name(c), "recomputes the normalisation afterwards" if ok else "does NOT recompute active_cvc_square_norm afterwards (%d candidate site(s))" % len(after)),
                ok, detail="total force and Jacobian term would be weighted with the coefficients of the previous configuration", func=g.q)
    if n < 2:
        raise AnalysisBroken("%s: only %d functions that change components found" % (rid, n))
    # the recomputation sums over the components its consumers sum over: enabled ones only
    m = 0
    for h in F.funcs.values():
        if h.cls != "colvar" or h.ctor or h.name == "init" or "/src/" not in h.file:
            continue
        for w, t in lvalue_writes(h):
            if X.key(t, h) != "this.active_cvc_square_norm" or w.get("op") != "+=":
                continue
            m += 1
            res = X.const_locals(h)
            from .rules_c03 import all_guards
            gs = all_guards(h, w)
            en = False
            for cn, pol in gs:
                for t in C.facts(h, cn, pol, res):
                    if t[0] == "true" and "cvcs" in t[1] and "is_enabled" in t[1]:
                        en = True
            rep.add(rid, "%s|enabled-only" % h.q, h.loc(w), "%s adds a component's squared coefficient to the normalisation %s" % (
                h.q, "only when that component is enabled" if en else "for EVERY component, enabled or not"), en,
                detail="forces are applied to, and total forces collected from, the enabled components only: with a disabled component "
                       "the measured total force is scaled by the wrong sum", func=h.q)
            # the recomputation starts from zero: a plain assignment of the field dominates the sum, in this function or in
            # every function that calls it
            def resets_before(fn, site):
                return [w2 for w2, t2 in lvalue_writes(fn) if X.key(t2, fn) == "this.active_cvc_square_norm" and w2.get("op") == "=" and fn.cfg.dominates(w2, site)]
            own = resets_before(h, w)
            missing = []
            if not own:
                from . import callgraph
                cg = callgraph.get(F)
                callers = cg.callers(h.m)
                if not callers:
                    missing.append(h.q)
                for cf, cc in callers:
                    if not cf.cfg.ok or not resets_before(cf, cc):
                        missing.append(cf.q)
            rep.add(rid, "%s|from-zero" % h.q, h.loc(w), "%s sums the squared coefficients %s" % (
                h.q, "starting from a reset in the same function" if own else
                ("after a reset in every caller" if not missing else "WITHOUT a preceding reset when called from %s" % sorted(set(missing)))), not missing,
                detail="the sum of the previous configuration is added to the new one: the measured total force is divided by too large a norm", func=h.q)
    if m < 1:
        raise AnalysisBroken("%s: no run-time recomputation of active_cvc_square_norm found" % rid)


def r6(F, rep, rid="C07-R6"):
    rep.rule(rid, "the force subtracted from the next total-force measurement is the force that was applied: the member taken "
                       "off `ft` under subtractAppliedForce is assigned, outside its reset, only from the member that "
                       "communicate_forces() hands to the components (the sum of all biases on the variable, including those "
                       "acting on its actual value)")
    from .rules_c10 import lvalue_writes
    props = F.one("colvar::calc_colvar_properties")
    sub = None
    for w, t in lvalue_writes(props):
        if X.key(t, props) == "this.ft" and w.get("op") == "-=":
            r = X.kids(w)[1] if w["k"] != "CXXOperatorCallExpr" else X.call_args(w)[1]
            sub = X.re_strip(X.key(r, props))
    if sub is None or not sub.startswith("this."):
        rep.add(rid, "subtract|site", props.loc(), "calc_colvar_properties() no longer subtracts a remembered applied force from ft", False, func=props.q)
        return
    comm = F.one("colvar::communicate_forces")
    applied = set()
    for c in X.calls(comm):
        if X.callee_name(c) == "apply_force" and X.call_args(c):
            for m in comm.walk(X.call_args(c)[0]):
                if m["k"] == "MemberExpr" and X.key(m, comm).startswith("this.") and "colvarvalue" in comm.typestr(m.get("t")):
                    applied.add(X.key(m, comm))
    if not applied:
        raise AnalysisBroken("%s: force handed to the components in communicate_forces() not found" % rid)
    n = 0
    for f in F.funcs.values():
        if f.cls != "colvar" or "/src/" not in f.file:
            continue
        for w, t in lvalue_writes(f):
            if X.re_strip(X.key(t, f)) != sub or w.get("op") != "=":
                continue
            r = X.kids(w)[1] if w["k"] == "BinaryOperator" else (X.call_args(w)[1] if len(X.call_args(w)) > 1 else None)
            if r is None:
                continue
            n += 1
            rk = X.re_strip(X.key(r, f))
            ok = rk in applied
            rep.add(rid, "%s|%s" % (f.q, sub), f.loc(w), "%s remembers `%s = %s`; communicate_forces() applies %s" % (f.q, sub, rk, sorted(applied)), ok,
                    detail="the part of the applied force that is left out stays inside the 'system' force that ABF and TI accumulate", func=f.q)
    if n < 1:
        rep.add(rid, "remember|%s" % sub, props.loc(), "`%s` is subtracted from ft but never assigned from the applied force" % sub, False, func=props.q)


def r7(F, rep, rid="C07-R7"):
    rep.rule(rid, "the inverse gradient refers to the reference the gradient used: where a component picks one of several "
                  "references by a search and its calc_gradients() subscripts the reference array with the selected index, "
                  "every subscript of that array in calc_gradients(), calc_force_invgrads() and apply_force() of the class "
                  "mentions the selected index (directly or through a constant local)")
    from .rules_c01 import search_selectors
    n = 0
    for fs, w, k, L in search_selectors(F):
        sel = X.re_strip(k)

        def subs(g):
            res = X.const_locals(g)
            out = []
            for x in g.walk():
                if x["k"] == "CXXOperatorCallExpr" and x.get("op") == "[]" and len(X.call_args(x)) == 2:
                    b, i = X.call_args(x)
                    bk = X.re_strip(X.key(b, g))
                    if bk.startswith("this."):
                        out.append((x, bk, X.re_strip(X.key(i, g, res))))
            return out
        fam = [g for g in F.funcs.values() if g.cls == fs.cls and g.body is not None]
        grads = [g for g in fam if g.name == "calc_gradients"]
        arrays = {bk for g in grads for x, bk, ik in subs(g) if sel in ik}
        for arr in sorted(arrays):
            n += 1
            for g in sorted(fam, key=lambda g: g.q):
                if g.name not in ("calc_gradients", "calc_force_invgrads", "apply_force"):
                    continue
                bad = [(x, ik) for x, bk, ik in subs(g) if bk == arr and sel not in ik]
                rep.add(rid, "%s|%s" % (g.q, arr), g.loc(bad[0][0]) if bad else g.loc(),
                        "%s: %s" % (g.q, ("subscripts `%s` with `%s`, without the selected index `%s`" % (arr, bad[0][1], sel)) if bad else
                                    ("every subscript of `%s` uses the selected index `%s`" % (arr, sel))), not bad,
                        detail="the total force is projected on another reference than the one the applied force was derived from: "
                               "the measured force is not the inverse of the applied one when a permuted reference wins", func=g.q)
    if n < 1:
        raise AnalysisBroken("%s: no reference array subscripted with a searched index in calc_gradients() (rmsd atomPermutation expected)" % rid)


def r8(F, rep, rid="C07-R8"):
    rep.rule(rid, "the derivative of the optimal rotation is read from a table prepared for the current rotation: every call of "
                  "calc_derivative_wrt_group1/2() on a rotation-derivative object is preceded, in the same function, by "
                  "prepare_derivative() on the same object -- on every path (the prepare dominates the call), or under the same "
                  "conditions as the call; all such functions do so today (fit gradients, Jacobian terms, orientation "
                  "components), none relies on another function having prepared the table earlier in the step")
    from .rules_c03 import all_guards
    n = 0
    for f in sorted(F.funcs.values(), key=lambda g: g.q):
        if "/src/" not in f.file or f.body is None or not f.cfg.ok or "colvar_rotation_derivative" in f.file:
            continue
        uses = [c for c in X.calls(f) if c["k"] == "CXXMemberCallExpr" and (X.callee_name(c) or "").startswith("calc_derivative_wrt_group") and X.receiver(c) is not None]
        if not uses:
            continue
        preps = [c for c in X.calls(f) if c["k"] == "CXXMemberCallExpr" and X.callee_name(c) == "prepare_derivative" and X.receiver(c) is not None]
        seen = set()
        for u in uses:
            rk = X.re_strip(X.key(X.receiver(u), f))
            if rk in seen:
                continue
            seen.add(rk)
            n += 1
            gu = {X.re_strip(X.key(cn, f)) + str(pol) for cn, pol in all_guards(f, u)}
            ok = False
            for p0 in preps:
                if X.re_strip(X.key(X.receiver(p0), f)) != rk:
                    continue
                gp = {X.re_strip(X.key(cn, f)) + str(pol) for cn, pol in all_guards(f, p0)}
                if f.cfg.dominates(p0, u) or (f.cfg.can_reach(p0, u) and gp <= gu):
                    ok = True
            rep.add(rid, "%s|%s" % (f.q, rk), f.loc(u), "%s reads the rotation derivative of `%s` %s" % (f.q, rk, "after preparing it" if ok else "WITHOUT preparing it in this function"), ok,
                    detail="when the function that used to prepare the table is not run (fit gradients switched off) the derivative is taken from "
                           "a table of an earlier rotation, or from an empty one: the Jacobian term of the total force is wrong", func=f.q)
    if n < 6:
        raise AnalysisBroken("%s: only %d functions reading rotation derivatives found" % (rid, n))


def run(F, rep, tier):
    r8(F, rep)
    r7(F, rep)
    r6(F, rep)
    r1(F, rep)
    r2(F, rep)
    r3(F, rep)
    r4(F, rep)
    norm_cache(F, rep, "C07-R5")
