"""Thorough tier: test the checker both ways on a scratch copy of the current tree.

For the property being checked, every mutant listed in selftest/mutants.json and every seeded change in
seeded/<id>/ is applied -- one at a time -- to a scratch copy of /repo's sources (outside /repo and /verif,
removed afterwards), the same rule engine is run on the copy, and the outcome is compared with the expectation:

  breaking  at least one obligation of the expected rule fails that does not fail on the unchanged tree
  benign    the set of failing obligations is the same as on the unchanged tree
  missed    a seeded change that the rules are known NOT to detect (arithmetic): recorded, never a failure

Nothing is compiled or executed: the copies are only parsed.  A mutant whose anchor text no longer occurs exactly once
in the current tree is reported as stale and skipped.  A wrong outcome means the CHECKER regressed (or the tree changed
under a rule): the run ends as analysis-broken (exit 2), never as a violation of /repo.
"""
import glob
import json
import os
import shutil
import subprocess
import tempfile

from . import facts, common
from .facts import AnalysisBroken, VERIF

MUTANTS = os.path.join(VERIF, "selftest", "mutants.json")
SEEDED = os.path.join(VERIF, "seeded")
COPY = ("src", "misc_interfaces/stubs")


def _failing(mod, prop, root, tier):
    F = facts.load("default", root=root)
    rep = common.Report(prop, tier)
    rep.info = F.info
    mod.run(F, rep, "quick")
    return {o.key: o for o in rep.obls if not o.ok}, len(rep.obls)


def _scratch(root):
    d = tempfile.mkdtemp(prefix="cvverif-selftest-", dir=os.environ.get("CVVERIF_SCRATCH", "/var/tmp"))
    for sub in COPY:
        shutil.copytree(os.path.join(root, sub), os.path.join(d, sub))
    return d


def run(prop, mod, rep):
    root = facts.repo_root()
    muts = []
    if os.path.exists(MUTANTS):
        with open(MUTANTS) as f:
            muts = [m for m in json.load(f)["mutants"] if m["property"] == prop]
    seeds = []
    for meta in sorted(glob.glob(os.path.join(SEEDED, "*", "meta.json"))):
        with open(meta) as f:
            m = json.load(f)
        exp = m.get("expect", {}).get(prop)
        if exp is not None:
            seeds.append((m["id"], os.path.join(os.path.dirname(meta), "patch.diff"), exp))
    if not muts and not seeds:
        rep.note("selftest: no mutants registered for %s" % prop)
        return
    base, nb = _failing(mod, prop, root, rep.tier)
    results, wrong = [], []
    scratch = _scratch(root)
    try:
        def restore(paths):
            for rel in paths:
                shutil.copyfile(os.path.join(root, rel), os.path.join(scratch, rel))

        def judge(mid, kind, expect, why):
            try:
                got, n = _failing(mod, prop, scratch, rep.tier)
                new = {k: o for k, o in got.items() if k not in base}
                gone = [k for k in base if k not in got]
                broken = None
            except AnalysisBroken as e:
                new, gone, n, broken = {}, [], 0, str(e)
            rules = sorted({o.rule for o in new.values()})
            if kind == "breaking":
                ok = broken is None and bool(new) and (not expect or any(r in rules for r in expect))
                # a mutant that removes an anchor altogether is also caught, as analysis-broken
                if broken is not None and expect and "BROKEN" in expect:
                    ok = True
            elif kind == "missed":
                ok = True
            else:
                ok = broken is None and not new and not gone
            r = {"id": mid, "kind": kind, "expect": expect, "new_failing_rules": rules, "new_failing": len(new),
                 "analysis_broken": broken, "ok": ok, "why": why,
                 "sample": [o.what[:160] for o in list(new.values())[:2]]}
            results.append(r)
            if not ok:
                wrong.append(r)

        for m in muts:
            path = os.path.join(scratch, m["file"])
            with open(path) as f:
                text = f.read()
            if text.count(m["find"]) != 1:
                results.append({"id": m["id"], "kind": m["kind"], "stale": True, "ok": True,
                                "why": "anchor text occurs %d times in the current tree" % text.count(m["find"])})
                continue
            with open(path, "w") as f:
                f.write(text.replace(m["find"], m["replace"]))
            try:
                judge(m["id"], m["kind"], m.get("expect", []), m.get("why", ""))
            finally:
                restore([m["file"]])
        for sid, patch, exp in seeds:
            chk = subprocess.run(["patch", "-p1", "--dry-run", "-s", "-i", patch], cwd=scratch, capture_output=True, text=True)
            if chk.returncode != 0:
                results.append({"id": sid, "kind": "seed", "stale": True, "ok": True, "why": "patch no longer applies to the current tree"})
                continue
            touched = [l[6:].strip() for l in open(patch) if l.startswith("+++ b/")]
            subprocess.run(["patch", "-p1", "-s", "-i", patch], cwd=scratch, check=True, capture_output=True)
            try:
                judge(sid, "missed" if exp == [] else "breaking", exp, "seeded change (see seeded/%s/README.md)" % sid)
            finally:
                restore([t for t in touched if os.path.exists(os.path.join(root, t))])
                for t in touched:
                    if not os.path.exists(os.path.join(root, t)) and os.path.exists(os.path.join(scratch, t)):
                        os.unlink(os.path.join(scratch, t))
    finally:
        shutil.rmtree(scratch, ignore_errors=True)
    rep.selftest = results
    n_ok = sum(1 for r in results if r["ok"] and not r.get("stale"))
    rep.note("selftest: %d variants on a scratch copy (%d breaking detected / benign silent / known-missed recorded as expected, %d stale, %d WRONG)" % (
        len(results), n_ok, sum(1 for r in results if r.get("stale")), len(wrong)))
    for r in results:
        tag = "stale" if r.get("stale") else ("ok" if r["ok"] else "WRONG")
        rep.note("  selftest %-8s %-9s %-5s -> %s %s" % (r["id"], r["kind"], tag, r.get("new_failing_rules", ""), r.get("analysis_broken") or ""))
    if wrong:
        raise AnalysisBroken("selftest: the checker gave the wrong answer on %s" % ", ".join(
            "%s (%s: new failing rules %s%s)" % (r["id"], r["kind"], r["new_failing_rules"],
                                                  ", analysis broken: " + r["analysis_broken"] if r["analysis_broken"] else "") for r in wrong))
