"""C19  Written outputs faithfully describe the internal state at the stated step.

R1  label/data column agreement: for every class implementing write_traj_label and write_traj the ordered
    sequence of (guard atoms, loop bound, number of inserted values) is the same in both functions
R2  composite classes delegate to the same ordered list of bases in both functions; the module iterates
    colvars then biases in both; the first datum of a data line is the step number
R3  write_traj_files: a data line is written exactly when step % frequency == 0; the pending-label
    request is cleared only where a label line is written, which is also an output step
"""
import re
from . import expr as X
from . import cond as C
from .facts import AnalysisBroken
from .rules_c03 import structural_guards
from . import rules_c06

MANIP_TYPES = ("_Setw", "_Setprecision", "_Setfill", "_Setiosflags", "_Setbase")


def guard_key(f, n, res):
    out = []
    for cn, pol in structural_guards(f, n):
        if cn is None:
            continue
        k = X.key(cn, f, res)
        nn = X.strip(cn)
        while nn["k"] == "UnaryOperator" and nn["op"] == "!":
            nn = X.strip(X.kids(nn)[0])
            pol = not pol
            k = X.key(nn, f, res)
        out.append((X.re_strip(k), pol))
    return tuple(sorted(out))


def loop_key(f, n, res):
    for a in f.ancestors(n):
        if a["k"] == "ForStmt":
            cond = a.get("c", [None, None])[1]
            if cond is not None:
                c = X.strip(cond)
                if c["k"] == "BinaryOperator" and c["op"] in ("<", "!="):
                    return X.re_strip(X.key(X.kids(c)[1], f, res))
                return X.re_strip(X.key(cond, f, res))
    return ""


def chain_operands(f, top):
    """Operands of a left-associated `os << a << b << c` chain, in order (without the stream)."""
    ops = []
    n = top
    while n is not None and n["k"] == "CXXOperatorCallExpr" and n.get("op") == "<<":
        a = X.call_args(n)
        if len(a) != 2:
            break
        ops.append(a[1])
        n = X.strip(a[0])
    ops.reverse()
    return ops


def is_value(f, e):
    e0 = X.strip(e)
    if e0["k"] == "StringLiteral":
        return False
    t = f.type(X.strip(e, explicit=False))
    if any(m in t for m in MANIP_TYPES):
        return False
    if e0["k"] in ("CallExpr",) and e0.get("cq", "").startswith("std::set"):
        return False
    # string temporaries built from a literal only: std::string("...")
    if e0["k"] in ("CXXConstructExpr", "CXXTemporaryObjectExpr", "CXXFunctionalCastExpr") and all(
            X.strip(a)["k"] == "StringLiteral" for a in X.call_args(e0) if a["k"] != "CXXDefaultArgExpr") and X.call_args(e0):
        return False
    return True


def column_sequence(F, f):
    """Ordered [(kind, guards, loop bound, count or callee)] of a traj writer."""
    res = X.const_locals(f)
    seq = []
    stream_params = {p["d"] for p in f.params if "basic_ostream" in f.typestr(p["t"])}
    tops = []
    for n in f.walk():
        if n["k"] == "CXXOperatorCallExpr" and n.get("op") == "<<":
            p = f.parent(n)
            while p is not None and p["k"] in ("ImplicitCastExpr",):
                p = f.parent(p)
            if p is not None and p["k"] == "CXXOperatorCallExpr" and p.get("op") == "<<" and X.strip(X.call_args(p)[0]) is n:
                continue
            # leftmost operand must be the stream parameter
            m = n
            while m["k"] == "CXXOperatorCallExpr" and m.get("op") == "<<":
                m = X.strip(X.call_args(m)[0])
            if m["k"] == "DeclRefExpr" and m.get("d") in stream_params:
                tops.append(("chain", n))
        elif n["k"] == "CXXMemberCallExpr" and X.callee_name(n) in ("write_traj_label", "write_traj") and n.get("callee") != f.m:
            tops.append(("call", n))
    tops.sort(key=lambda t: t[1]["i"])
    for kind, n in tops:
        g = guard_key(f, n, res)
        lk = loop_key(f, n, res)
        if kind == "chain":
            vals = [e for e in chain_operands(f, n) if is_value(f, e)]
            if vals:
                seq.append(("cols", g, lk, len(vals)))
        else:
            r = X.receiver(n)
            target = n.get("cq", "").rsplit("::", 1)[0]
            # locals are identified by role (what they iterate over is in the loop key), not by name
            recv = "this" if (r is None or X.strip(r)["k"] == "CXXThisExpr") else X.re_strip(re.sub(r"\b[A-Za-z_]\w*#\d+", "_", X.key(r, f, res)))
            seq.append(("call", g, lk, "%s on %s" % (target, recv)))
    return seq


def r1_r2(F, rep):
    rep.rule("C19-R1", "label/data agreement: in every class that implements both write_traj_label() and write_traj(), "
                       "the two functions emit the same ordered sequence of column groups -- same feature guards, same "
                       "loop bound, same number of inserted values -- so every data line has exactly the announced columns "
                       "in the announced order for every combination of output flags")
    rep.rule("C19-R2", "composite classes delegate to the same ordered list of base classes in both functions, the module "
                       "visits colvars then biases in both, and the first datum of a data line is the step counter")
    classes = sorted({f.cls for f in F.funcs.values() if f.name == "write_traj_label" and f.cls})
    n = 0
    for cq in classes:
        lab = [f for f in F.funcs.values() if f.cls == cq and f.name == "write_traj_label"]
        dat = [f for f in F.funcs.values() if f.cls == cq and f.name == "write_traj" and len(f.params) == 1]
        if not lab or not dat:
            continue
        n += 1
        L = column_sequence(F, lab[0])
        D = column_sequence(F, dat[0])
        Lc = [x for x in L if x[0] == "cols"]
        Dc = [x for x in D if x[0] == "cols"]
        if cq == "colvarmodule":
            # the label line starts with the literal name "step", the data line with the counter `it`
            Dc = Dc[1:] if Dc and Dc[0][1] == () else Dc
            Lc = Lc[1:] if Lc and Lc[0][1] == () and Lc[0][3] == 1 else Lc
        # P5: enumerate every assignment of the opaque guard atoms and compare the active group sequences
        atoms = sorted({a for x in Lc + Dc for a, _ in x[1]})
        if len(atoms) > 12:
            raise AnalysisBroken("%s: too many guard atoms (%d) to enumerate" % (cq, len(atoms)))
        ok, detail, nassign = True, "", 0
        for mask in range(1 << len(atoms)):
            env = {a: bool(mask >> i & 1) for i, a in enumerate(atoms)}
            nassign += 1

            def active(seq):
                out = []
                for _, g, lk, cnt in seq:
                    if all(env[a] == pol for a, pol in g):
                        # merge adjacent groups with the same loop bound
                        if out and out[-1][0] == lk:
                            out[-1] = (lk, out[-1][1] + cnt)
                        else:
                            out.append((lk, cnt))
                return out
            la, da = active(Lc), active(Dc)
            if la != da:
                ok = False
                detail = "with %s: label groups %s, data groups %s" % (
                    ", ".join("%s=%s" % (a, "on" if v else "off") for a, v in env.items()), la, da)
                break
        rep.count("flag_assignments_enumerated", nassign)
        rep.add("C19-R1", "%s|columns" % cq, lab[0].loc(), "%s: label and data column groups %s under all %d assignments of %d output flags" % (
            cq, "agree" if ok else "DISAGREE", 1 << len(atoms), len(atoms)), ok, detail=detail, func=cq + "::write_traj")
        Lk = [x[3].replace("write_traj_label", "") for x in L if x[0] == "call"]
        Dk = [x[3] for x in D if x[0] == "call"]
        if Lk or Dk:
            ok2 = Lk == Dk
            rep.add("C19-R2", "%s|delegation" % cq, lab[0].loc(), "%s delegates labels to %s and data to %s" % (cq, Lk, Dk), ok2,
                    func=cq + "::write_traj")
    if n < 8:
        raise AnalysisBroken("only %d classes with write_traj_label/write_traj found" % n)
    rep.count("traj_writer_classes", n)
    # first datum of the data line
    mt = [f for f in F.funcs.values() if f.q == "colvarmodule::write_traj" and len(f.params) == 1]
    if not mt:
        raise AnalysisBroken("colvarmodule::write_traj not found")
    seq = column_sequence(F, mt[0])
    first = None
    for nn in mt[0].walk():
        if nn["k"] == "CXXOperatorCallExpr" and nn.get("op") == "<<":
            ops = [e for e in chain_operands(mt[0], nn) if is_value(mt[0], e)]
            if ops:
                first = X.key(ops[0], mt[0])
                break
    rep.add("C19-R2", "module|first-datum", mt[0].loc(), "the first value of a trajectory line is `%s`" % first,
            first in ("this.it", "colvarmodule::it"), detail="each line must carry the step number at which its values held", func=mt[0].q)


def r3(F, rep):
    rep.rule("C19-R3", "write_traj_files: a data line is written exactly under step_absolute() % cv_traj_freq == 0, the label "
                       "line is written before it, and the pending-label request (cv_traj_write_labels) is cleared only "
                       "at a point dominated by the label write")
    f = F.one("colvarmodule::write_traj_files")
    res = X.const_locals(f)
    lab = [c for c in X.calls(f) if X.callee_name(c) == "write_traj_label"]
    dat = [c for c in X.calls(f) if X.callee_name(c) == "write_traj" and c.get("cq") == "colvarmodule::write_traj"]
    if not lab or not dat:
        raise AnalysisBroken("write_traj_files: label/data calls not found")
    for d in dat:
        facts, gs = C.guard_facts(f, d, res)
        mods = [t for t in facts if t[0] == "cmp" and t[1] == "==" and t[3] == "0" and "% " in t[2] and "cv_traj_freq" in t[2]
                and "colvarmodule::step_absolute()" in t[2] and "step_relative" not in t[2]]
        other = [(X.text(f.nodes[c], f), p) for c, p in f.cfg.real_guards(d)
                 if "cv_traj_freq" not in X.key(f.nodes[c], f, res) and "cv_traj_os" not in X.key(f.nodes[c], f, res)]
        rep.add("C19-R3", "data|schedule", f.loc(d), "the data line is written %s" % (
            "exactly when step_absolute() %% cv_traj_freq == 0" if mods and not other else "under a different condition: %s %s" % (mods, other)),
            bool(mods) and not other, func=f.q)
        ok = all(f.cfg.can_reach(l, d) and not f.cfg.can_reach(d, l) for l in lab)
        rep.add("C19-R3", "label-before-data", f.loc(d), "the label line precedes the data line of the same step", ok, func=f.q)
    from .rules_c10 import lvalue_writes
    clears = [w for w, t in lvalue_writes(f) if "cv_traj_write_labels" in X.key(t, f) and w["k"] == "BinaryOperator"
              and C._lit(X.kids(w)[1]) == 0]
    for w in clears:
        ok = any(f.cfg.dominates(l, w) for l in lab)
        rep.add("C19-R3", "label-request|consumed", f.loc(w), "cv_traj_write_labels is cleared %s" % (
            "only after a label line was written" if ok else "on a path where NO label line was written"), ok,
            detail="a change of the output columns right before a non-output step would lose its label line", func=f.q)
    # the label write must itself happen on an output step or the request must survive until one:
    for l in lab:
        facts, gs = C.guard_facts(f, l, res)
        # labels may be written on any step; then the request flag must not be cleared elsewhere (checked above)
        rep.add("C19-R3", "label|reached", f.loc(l), "label line is written under: %s" % "; ".join(
            "%s is %s" % (X.text(f.nodes[c], f)[:70], p) for c, p in f.cfg.real_guards(l)), True, func=f.q)
    sets = []
    for g in F.funcs.values():
        for w, t in lvalue_writes(g):
            if "cv_traj_write_labels" in X.key(t, g) and w["k"] == "BinaryOperator" and C._lit(X.kids(w)[1]) == 1:
                sets.append(g.q)
    rep.add("C19-R3", "label-request|raised", f.loc(), "label refresh is requested by: %s" % sorted(set(sets)), len(set(sets)) >= 1, func=f.q)


def r4(F, rep):
    rep.rule("C19-R4", "running statistics: in colvar::calc_runave() every term added to the running variance is the squared "
                       "distance between the running average and a sample (the current value or an element of the history), the "
                       "average is the sum of the same samples divided by the window length, and the variance by length - 1")
    from .rules_c10 import lvalue_writes
    f = F.one("colvar::calc_runave")
    res = X.const_locals(f)
    terms = [w for w, t in lvalue_writes(f) if X.key(t, f) == "this.runave_variance" and w.get("op") == "+="]
    if len(terms) < 2:
        rep.add("C19-R4", "variance|terms", f.loc(), "calc_runave(): %d terms are added to the running variance (current value and history expected)" % len(terms), False, func=f.q)
    for i, w in enumerate(terms):
        rhs = X.kids(w)[1]
        d = [c for c in X.calls(f, rhs) if X.callee_name(c) == "dist2"]
        ok = False
        args = []
        if len(d) == 1:
            args = [X.re_strip(X.key(a, f)) for a in X.call_args(d[0])]
            ok = "this.runave" in args and any(a != "this.runave" for a in args)
        in_loop = any(a["k"] == "ForStmt" for a in f.ancestors(w))
        rep.add("C19-R4", "variance|%s" % ("history" if in_loop else "current"), f.loc(w), "variance term %s: dist2(%s)" % (
            "over the history" if in_loop else "for the current value", ", ".join(args)), ok,
            detail="deviations would be measured from something other than the mean", func=f.q)
    norm = [w for w, t in lvalue_writes(f) if X.key(t, f) in ("this.runave_variance", "this.runave") and w.get("op") == "*="]
    ks = {X.key(t, f): X.re_strip(X.key((X.kids(w)[1] if w["k"] != "CXXOperatorCallExpr" else X.call_args(w)[1]), f)) for w, t in
          [(w, t) for w, t in lvalue_writes(f) if X.key(t, f) in ("this.runave_variance", "this.runave") and w.get("op") == "*="]}
    okn = "runave_length" in ks.get("this.runave", "") and "- 1" not in ks.get("this.runave", "") and \
        "(this.runave_length - 1)" in ks.get("this.runave_variance", "")
    rep.add("C19-R4", "normalisation", f.loc(), "average scaled by %s, variance by %s" % (ks.get("this.runave"), ks.get("this.runave_variance")), okn, func=f.q)


def named_output(F, rep, rid="C19-R6"):
    rep.rule(rid, "an output goes to the file its guard names: where a call that writes a file (write_*() or output_stream()) "
                  "takes a string member as the file name and is guarded by tests of string members (non-empty, not \"none\"), "
                  "the member passed is one of the members tested -- otherwise one output replaces another under its name "
                  "(the OpenDX text written over the multicolumn histogram file)")
    from .rules_c03 import all_guards
    n = 0
    for f in sorted(F.funcs.values(), key=lambda g: g.q):
        if f.body is None or "/src/" not in f.file or not f.cls:
            continue
        for c in X.calls(f):
            nm = X.callee_name(c) or ""
            if not (nm.startswith("write_") or nm == "output_stream"):
                continue
            args = X.call_args(c)
            if not args:
                continue
            a = X.strip(args[0])
            if a["k"] != "MemberExpr" or a.get("dk") != "Field" or "string" not in f.typestr(a.get("t")):
                continue
            tested = set()
            for cn, pol in all_guards(f, c):
                for x in f.walk(cn):
                    if x["k"] == "MemberExpr" and x.get("dk") == "Field" and "string" in f.typestr(x.get("t")):
                        tested.add(x["n"])
            if not tested:
                continue
            n += 1
            ok = a["n"] in tested
            rep.add(rid, "%s|%s|%s" % (f.q, nm, "+".join(sorted(tested))), f.loc(c), "%s: %s(%s, ...) under a test of %s" % (f.q, nm, a["n"], sorted(tested)), ok,
                    detail="the file named by the tested member is never written, and the file named by the other member is replaced by this output", func=f.q)
    if n < 4:
        raise AnalysisBroken("%s: only %d guarded file outputs with member names found" % (rid, n))


def run(F, rep, tier):
    from .rules_c03 import written_steps
    written_steps(F, rep, "C19-R7")   # every output file is labelled on the same time axis
    named_output(F, rep)
    r1_r2(F, rep)
    r3(F, rep)
    r4(F, rep)
    rules_c06.r6(F, rep, "C19-R5")   # the W_ trajectory column stops growing when the schedule ends
