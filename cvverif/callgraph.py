"""P1: whole-library call graph with class-hierarchy resolution of virtual calls."""
from . import expr as X


class CallGraph:
    def __init__(self, F):
        self.F = F
        self.out = {}     # caller mangled -> list of (callee mangled, call node)
        self.inn = {}     # callee mangled -> list of (caller Func, call node)
        for f in F.funcs.values():
            edges = []
            for c in X.calls(f):
                for tgt in self.targets(c):
                    edges.append((tgt, c))
                    self.inn.setdefault(tgt, []).append((f, c))
            # lambdas defined in f are considered called by f (closures passed to loops/std::function)
            for n in f.walk():
                if n["k"] == "LambdaExpr" and n.get("m"):
                    edges.append((n["m"], n))
                    self.inn.setdefault(n["m"], []).append((f, n))
            self.out[f.m] = edges

    def targets(self, call):
        m = call.get("callee")
        if not m:
            return []
        if call.get("virt"):
            return [m] + sorted(self.F.overriders(m))
        return [m]

    def callees(self, m):
        return self.out.get(m, [])

    def callers(self, m):
        return self.inn.get(m, [])

    def reachable(self, roots, follow=None):
        """Set of mangled names reachable from roots (mangled).  follow(caller Func,
        call node, callee mangled) -> bool filters edges."""
        seen = set()
        stack = list(roots)
        while stack:
            m = stack.pop()
            if m in seen:
                continue
            seen.add(m)
            f = self.F.funcs.get(m)
            for tgt, c in self.out.get(m, ()):
                if tgt in seen:
                    continue
                if follow and f is not None and not follow(f, c, tgt):
                    continue
                stack.append(tgt)
        return seen

    def reachable_ctx(self, roots, follow=None):
        """Like reachable(), but sensitive to constant integer/bool arguments: a
        function is explored once per distinct tuple of constant parameter values,
        and a call edge is not followed when the call site is edge-dominated by a
        guard on one of the caller's parameters that the known constant falsifies
        (e.g. `if (remap) {...}` inside read_multicol(is, remap=false))."""
        from . import cond as C
        seen = set()
        stack = [(m, ()) for m in roots]
        out = set()
        while stack:
            m, env = stack.pop()
            if (m, env) in seen:
                continue
            seen.add((m, env))
            out.add(m)
            f = self.F.funcs.get(m)
            if f is None:
                continue
            envd = dict(env)
            pkeys = {}
            for i, p in enumerate(f.params):
                if i in envd:
                    pkeys["%s#%s" % (p["n"], p["d"])] = envd[i]
            for tgt, c in self.out.get(m, ()):
                if follow and not follow(f, c, tgt):
                    continue
                if pkeys and c["k"] != "LambdaExpr":
                    facts, _ = C.guard_facts(f, c)
                    dead = False
                    for fact in facts:
                        if len(fact) == 2 and fact[1] in pkeys:
                            v = pkeys[fact[1]]
                            if (fact[0] in ("true", "nz", "pos") and v == 0) or (
                                    fact[0] in ("false", "z") and v != 0) or (
                                    fact[0] == "pos" and v <= 0):
                                dead = True
                    if dead:
                        continue
                cenv = ()
                t = self.F.funcs.get(tgt)
                if t is not None and c.get("cargs") and c.get("callee") == tgt:
                    off = 1 if (c["k"] == "CXXOperatorCallExpr" and t.cls) else 0
                    cenv = tuple(sorted((a - off, v) for a, v in c["cargs"] if a - off >= 0))
                stack.append((tgt, cenv))
        return out

    def reaches(self, m, pred, limit=100000):
        """Does m (transitively) call a function for which pred(mangled, Func|None)?"""
        seen = set()
        stack = [m]
        while stack:
            x = stack.pop()
            if x in seen:
                continue
            seen.add(x)
            if pred(x, self.F.funcs.get(x)):
                return True
            for tgt, _ in self.out.get(x, ()):
                if tgt not in seen:
                    stack.append(tgt)
        return False


_cg_cache = {}


def get(F):
    k = id(F)
    if k not in _cg_cache:
        _cg_cache[k] = CallGraph(F)
    return _cg_cache[k]
