"""C14  Multiple-walker sharing combines every walker's data exactly once.

R1  own data is never re-read as a peer's: loops that read peers through replicas[ir] start at a constant >= 1
    and replicas[0] == this is established by a single push_back(this)
R2  snapshot refresh in shared ABF: after an exchange (and after loading a state in shared mode) last_gradients /
    last_samples are refreshed from the current grids on every success path
R3  gradients and counts travel together: in replica_share and replica_share_CZAR the grid operations applied to the
    gradient family equal those applied to the count family, with the matching buffer halves
R4  failures while reading a peer touch only that peer's bookkeeping (replicas[ir] fields)
R5  rewind idiom: a stream is rewound to a saved position on an error path only after clear() (seekg is a no-op on a
    failed stream), so a partially written peer record is re-read from its beginning at the next exchange
"""
from . import expr as X
from . import cond as C
from . import callgraph
from .facts import AnalysisBroken
from .rules_c10 import lvalue_writes

GRID_OPS = ("delta_grid", "add_grid", "copy_grid", "raw_data_in", "raw_data_out", "raw_data_num")


def r1(F, rep):
    rep.rule("C14-R1", "a walker never reads its own files as a peer's: every loop that reaches a peer through "
                       "replicas[ir] (read_state, read_hill, project_hills, file bookkeeping) starts at a constant >= 1, and "
                       "the walker itself is entered in the list exactly once, first")
    n = 0
    for f in F.funcs.values():
        if f.cls != "colvarbias_meta" or not f.cfg.ok:
            continue
        for loop in f.walk():
            if loop["k"] != "ForStmt":
                continue
            init, cond, inc, body = loop["c"]
            if cond is None or "replicas" not in X.key(cond, f):
                continue
            # does the body read a peer (call read_*/project on replicas[ir], or this->read_* with replicas[ir] data)?
            reads = [c for c in X.calls(f, body) if X.callee_name(c) in ("read_state", "read_hill", "read_replica_files")]
            if not reads:
                continue
            n += 1
            start = None
            if init is not None:
                for x in f.walk(init):
                    if x["k"] == "VarDecl" and X.kids(x):
                        start = C._lit(X.kids(x)[0])
                    elif x["k"] == "BinaryOperator" and x["op"] == "=":
                        start = C._lit(X.kids(x)[1])
            rep.add("C14-R1", "%s|loop@%s" % (f.q, X.callee_name(reads[0])), f.loc(loop),
                    "loop over replicas in %s that reads peer data starts at %s" % (f.q, start),
                    start is not None and start >= 1, detail="index 0 is the walker itself: its own hills would be added twice", func=f.q)
    if n < 1:
        raise AnalysisBroken("no loop over replicas reading peer data found in colvarbias_meta")
    pushes = []
    for f in F.funcs.values():
        if f.cls != "colvarbias_meta":
            continue
        for c in X.calls(f):
            if c["k"] == "CXXMemberCallExpr" and X.callee_name(c) == "push_back" and X.receiver(c) is not None and \
                    X.key(X.receiver(c), f) == "this.replicas":
                a = X.strip(X.call_args(c)[0])
                pushes.append((f, c, a["k"] == "CXXThisExpr"))
    self_pushes = [p for p in pushes if p[2]]
    rep.add("C14-R1", "replicas|self-once", self_pushes[0][0].loc(self_pushes[0][1]) if self_pushes else "",
            "the walker enters itself in replicas %d time(s) (in %s)" % (len(self_pushes), sorted({p[0].q for p in self_pushes})),
            len(self_pushes) == 1, func="colvarbias_meta")


def r2_r3(F, rep):
    rep.rule("C14-R2", "shared ABF refreshes its last-exchange snapshots: last_gradients->copy_grid(*gradients) and "
                       "last_samples->copy_grid(*samples) are reached on every non-error path after the grids were merged "
                       "in replica_share(), and when a state is loaded in shared mode")
    rep.rule("C14-R3", "gradients and counts travel together: replica_share() and replica_share_CZAR() apply the same "
                       "sequence of grid operations to the gradient grids and to the count grids")
    f = F.one("colvarbias_abf::replica_share")
    res = X.const_locals(f)
    snaps = {}
    for c in X.calls(f):
        if c["k"] == "CXXMemberCallExpr" and X.callee_name(c) == "copy_grid":
            r = X.key(X.receiver(c), f)
            # the snapshot is taken of the combined grid itself (the one the next delta is measured against)
            if "last_" in r and X.call_args(c) and ("this.%s)" % r[r.index("last_") + 5:].rstrip(")")) in X.key(X.call_args(c)[0], f):
                snaps[r] = c
    muts = [c for c in X.calls(f) if c["k"] == "CXXMemberCallExpr" and X.callee_name(c) in ("add_grid", "raw_data_in")
            and X.key(X.receiver(c), f) in ("op->(this.gradients)", "op->(this.samples)")]
    if not muts:
        raise AnalysisBroken("replica_share: merges into gradients/samples not found")
    err_blocks = set()
    for c in X.calls(f):
        if c.get("cq") == "colvarmodule::error":
            pos = f.cfg.block_of(c)
            if pos:
                err_blocks.add(pos[0])
    for name in ("last_gradients", "last_samples"):
        key = "op->(this.%s)" % name
        snap = snaps.get(key)
        ok = False
        if snap is not None:
            ok = True
            for m in muts:
                if not f.cfg.can_reach(m, snap):
                    ok = False
                # leak: path from m to exit avoiding snap and error blocks
                sb = f.cfg.block_of(snap)[0]
                seen, stack = set(), [s for s in f.cfg.succ.get(f.cfg.block_of(m)[0], ()) if s is not None]
                while stack:
                    b = stack.pop()
                    if b in seen or b == sb or b in err_blocks:
                        continue
                    seen.add(b)
                    if b == f.cfg.exit:
                        ok = False
                        break
                    stack.extend(s for s in f.cfg.succ.get(b, ()) if s is not None)
        rep.add("C14-R2", "replica_share|%s" % name, f.loc(snap) if snap is not None else f.loc(),
                "%s is %s from the merged grid on every non-error path of replica_share()" % (name, "refreshed" if ok else "NOT refreshed"),
                ok, detail="otherwise the next delta would send the peers' data back to them (counted twice)", func=f.q)
    # every function that loads the accumulated grids from outside (state file, inputPrefix files) marks the loaded data as
    # already shared
    nload = 0
    for g in F.funcs.values():
        if g.cls != "colvarbias_abf" or g.is_lambda or g.q == f.q:
            continue
        loads = [c for c in X.calls(g) if c["k"] == "CXXMemberCallExpr" and X.receiver(c) is not None and
                 X.key(X.receiver(c), g) in ("op->(this.gradients)", "op->(this.samples)") and X.callee_name(c).startswith("read_")]
        if not loads:
            continue
        nload += 1
        got = set()
        for c in X.calls(g):
            if c["k"] == "CXXMemberCallExpr" and X.callee_name(c) == "copy_grid" and "last_" in X.key(X.receiver(c), g):
                facts, gs = C.guard_facts(g, c)
                src = X.key(X.call_args(c)[0], g) if X.call_args(c) else ""
                want = "gradients" if "gradients" in X.key(X.receiver(c), g) else "samples"
                from .rules_c03 import structural_guards
                extra = [X.re_strip(X.key(cn, g)) for cn, pol in structural_guards(g, c)
                         if cn is not None and X.re_strip(X.key(cn, g)) not in ("this.shared_on",)]
                if ("true", "this.shared_on") in facts and not extra and ("this.%s)" % want) in src and all(g.cfg.can_reach(l, c) for l in loads):
                    got.add(X.key(X.receiver(c), g))
        tag = g.name if not g.params else "%s|%s" % (g.name, g.typestr(g.params[0]["t"])[:24])
        rep.add("C14-R2", "load|%s" % tag, g.loc(loads[0]),
                "%s loads gradients/samples from outside (%d read call(s)); in shared mode (and under no narrower condition) it then copies the loaded grids themselves into %s" % (g.q, len(loads), sorted(got) or "NOTHING"),
                len(got) == 2, detail="data loaded but not recorded in last_gradients / last_samples is sent to every peer as a new increment: "
                                      "the combined grids hold it once per walker", func=g.q)
    if nload < 3:
        raise AnalysisBroken("C14-R2: only %d loaders of the ABF grids found (two state readers and read_gradients_samples expected)" % nload)
    # R3
    for q, fam in (("colvarbias_abf::replica_share", (("gradients", "samples"),)),
                   ("colvarbias_abf::replica_share_CZAR", (("gradients", "samples"),))):
        g = F.one(q)
        seq = {"gradients": [], "samples": []}
        for c in X.calls(g):
            if c["k"] != "CXXMemberCallExpr" or X.callee_name(c) not in GRID_OPS:
                continue
            rk = X.re_strip(X.key(X.receiver(c), g))
            kind = "gradients" if "gradient" in rk else ("samples" if "sample" in rk else None)
            if kind is None:
                continue
            norm = rk.replace("gradients", "G").replace("samples", "G")
            args = X.call_args(c)
            a0 = X.re_strip(X.key(args[0], g)) if args else ""
            a0 = a0.replace("gradients", "G").replace("samples", "G")
            # buffer half: &msg_data[0] for gradients, &msg_data[samp_start] for counts
            half = ""
            if X.callee_name(c) in ("raw_data_in", "raw_data_out"):
                # &buffer[0] is the gradient half; &buffer[<offset of the counts>] the other one
                half = "first-half" if ("[0]" in a0 or ", 0)" in a0) else "second-half"
                a0 = "buffer"
            seq[kind].append((X.callee_name(c), norm, a0, half))
        gs_, ss_ = seq["gradients"], seq["samples"]
        shape = lambda s: [(a, b, c2) for a, b, c2, h in s]
        ok = shape(gs_) == shape(ss_) and len(gs_) >= 3
        halves = all(h in ("", "first-half") for a, b, c2, h in gs_) and all(h in ("", "second-half") for a, b, c2, h in ss_)
        rep.add("C14-R3", "%s|same-ops" % q, g.loc(), "%s: %d grid operations on gradients, %d on counts, %s" % (
            q, len(gs_), len(ss_), "pairwise identical" if ok else "DIFFERENT: %s vs %s" % (shape(gs_), shape(ss_))), ok,
            detail="a gradient sum merged without its count (or vice versa) changes the stored mean force", func=q)
        rep.add("C14-R3", "%s|buffer-halves" % q, g.loc(), "gradients use the first half of the message buffer and counts the part after samp_start",
                halves, func=q)


def r4(F, rep):
    rep.rule("C14-R4", "a slow, absent or partially written peer never corrupts a walker's own data: on the branches of "
                       "read_replica_files() where a peer file could not be opened or read, only fields of replicas[ir] are written")
    f = F.one("colvarbias_meta::read_replica_files")
    res = X.const_locals(f)
    n = 0
    for w, tgt in lvalue_writes(f):
        if w["k"] == "UnaryOperator" and w["op"] == "&":
            continue
        facts, gs = C.guard_facts(f, w, res)
        failure = any((t[0] in ("false", "z") and ("read_state" in t[1] or "is_open" in t[1] or "read_hill" in t[1]))
                      for t in facts)
        if not failure:
            continue
        k = X.key(tgt, f, res)
        n += 1
        own = k.startswith("this.") and not k.startswith("this.replicas")
        rep.add("C14-R4", "failure-write|%s" % X.re_strip(k)[:60], f.loc(w), "on a failed peer read, %s is written" % X.re_strip(k)[:80],
                not own or "update_status" in k, detail="the walker's own hills/grids must be untouched by a peer's failure", func=f.q)
    if n < 2:
        raise AnalysisBroken("read_replica_files: failure branches not found")


def r5(F, rep):
    rep.rule("C14-R5", "rewind idiom: wherever a stream is repositioned with seekg() and then marked failed "
                       "(setstate(failbit)), clear() on the same stream dominates the seekg(): seekg does nothing on a failed "
                       "stream, and the resume position of a partially written record would then point into its middle")
    n = 0
    for f in F.funcs.values():
        if "/src/" not in f.file or not f.cfg.ok:
            continue
        for c in X.calls(f):
            if c["k"] != "CXXMemberCallExpr" or X.callee_name(c) != "seekg":
                continue
            r = X.receiver(c)
            if r is None:
                continue
            rk = X.key(r, f)
            fails = [d for d in X.calls(f) if d["k"] == "CXXMemberCallExpr" and X.callee_name(d) == "setstate"
                     and X.receiver(d) is not None and X.key(X.receiver(d), f) == rk and f.cfg.can_reach(c, d)
                     and not f.cfg.exits_from(c, avoiding=[d])]
            if not fails:
                continue
            # the stream is known to be good here if the seekg is reached only through a successful extraction
            facts, gs = C.guard_facts(f, c)
            sname = X.re_strip(rk)
            if any(t[0] == "true" and ("op>>(%s" % rk) in t[1] for t in facts):
                continue
            n += 1
            clears = [d for d in X.calls(f) if d["k"] == "CXXMemberCallExpr" and X.callee_name(d) == "clear"
                      and X.receiver(d) is not None and X.key(X.receiver(d), f) == rk]
            ok = any(f.cfg.dominates(d, c) for d in clears)
            rep.add("C14-R5", "%s|%s|%s" % (f.m if f.inst or f.q.startswith("operator") else f.q, X.re_strip(rk), X.text(X.call_args(c)[0], f)[:30]),
                    f.loc(c), "error rewind in %s: seekg() is %s by clear()" % (f.q, "preceded" if ok else "NOT preceded"), ok,
                    detail="the stream stays where the failed extraction stopped", func=f.q)
    if n < 10:
        raise AnalysisBroken("only %d error-rewind sites found" % n)


def r6(F, rep, rid="C14-R6"):
    rep.rule(rid, "record readers rewind on every failure path: in a function that saves the stream position at entry "
                  "(x = is.tellg()) and rewinds to it somewhere, every return that can only be reached after an extraction "
                  "(is >> v), a key read or a block read FAILED either is a call of the rewinding helper or is dominated by a "
                  "seekg to the saved position -- so an incomplete record at the end of a peer's file is read again from "
                  "its beginning at the next exchange")
    n = 0
    seen = set()
    for f in F.funcs.values():
        if "/src/" not in f.file or not f.cfg.ok:
            continue
        pos = [v for v in f.walk() if v["k"] == "VarDecl" and X.kids(v) and
               X.mentions(X.kids(v)[0], lambda y: y["k"] == "CXXMemberCallExpr" and X.callee_name(y) == "tellg")]
        if not pos:
            continue
        pd = {v["d"] for v in pos}
        rew = [c for c in X.calls(f) if (X.callee_name(c) == "seekg" or "error" in X.callee_name(c) or "rewind" in X.callee_name(c)) and
               any(X.mentions(a, lambda y: y["k"] == "DeclRefExpr" and y.get("d") in pd) for a in X.call_args(c))]
        if not rew:
            continue
        k = 0
        for r in f.walk():
            if r["k"] != "ReturnStmt":
                continue
            fs, _ = C.guard_facts(f, r)
            failed = [t for t in fs if t[0] in ("false", "z") and ("op>>(" in t[1] or "read_state_data_key" in t[1] or "read_block" in t[1])]
            if not failed:
                continue
            k += 1
            key = "%s|%s|#%d" % (f.q if not f.inst else f.q, X.re_strip(failed[0][1])[:50], k)
            if key in seen:
                continue
            seen.add(key)
            n += 1
            is_rew = bool(X.kids(r)) and any(X.mentions(r, lambda y, c=c: y is c) for c in rew)
            dom = any(f.cfg.dominates(c, r) for c in rew)
            rep.add(rid, key, f.loc(r), "%s: return after a failed `%s` %s" % (f.q, X.re_strip(failed[0][1])[:60],
                    "rewinds the stream" if (is_rew or dom) else "does NOT rewind the stream to the saved position"), is_rew or dom,
                    detail="the next read would resume in the middle of the record: it and everything after it is lost", func=f.q)
    if n < 5:
        raise AnalysisBroken("%s: only %d failure returns found in record readers" % (rid, n))


def r7(F, rep):
    rep.rule("C14-R7", "recovery code is reachable: in the peer-file readers of the multiple-walker code no branch is guarded "
                       "by the negation of a stream-state test that dominates it (`if (is.is_open()) { ... if (!is.is_open()) "
                       "{recover} }`) unless the stream is re-opened or closed in between -- such a branch can never run, and the "
                       "situation it was written for (a peer that overwrote its file) goes unhandled")
    n = 0
    for f in F.funcs.values():
        if f.cls != "colvarbias_meta" or not f.cfg.ok or "replica" not in f.name:
            continue
        for s in f.walk():
            if s["k"] != "IfStmt":
                continue
            cs = s["c"]
            cond = cs[1] if len(cs) == 4 else cs[0]
            if cond is None:
                continue
            c = X.strip(cond)
            if not (c["k"] == "UnaryOperator" and c["op"] == "!"):
                continue
            inner = X.strip(X.kids(c)[0])
            if inner["k"] != "CXXMemberCallExpr" or X.callee_name(inner) not in ("is_open", "good") or X.receiver(inner) is None:
                continue
            n += 1
            k = X.key(inner, f)
            rk = X.key(X.receiver(inner), f)
            facts, gs = C.guard_facts(f, inner)
            dominated = [cid for cid, pol in gs if pol and X.key(f.nodes[cid], f) == k and f.nodes[cid] is not inner]
            dead = False
            for cid in dominated:
                # any open()/close()/seekg-with-failure... between? only open/close change is_open()
                # open()/close() on the same stream inside the dominating branch and before this test (same iteration)
                outer_if = None
                for a in f.ancestors(f.nodes[cid]):
                    if a["k"] == "IfStmt":
                        outer_if = a
                        break
                changers = [d for d in X.calls(f, outer_if) if d["k"] == "CXXMemberCallExpr" and X.callee_name(d) in ("open", "close") and
                            X.receiver(d) is not None and X.key(X.receiver(d), f) == rk and
                            f.cfg.can_reach(d, inner) and not any(x is d for x in f.walk(s))] if outer_if is not None else []
                changers = [d for d in changers if d.get("l", 0) <= inner.get("l", 0)]
                if not changers:
                    dead = True
            rep.add("C14-R7", "%s|%s" % (f.q, X.re_strip(k)), f.loc(s), "%s: branch on `!%s` %s" % (
                f.q, X.re_strip(k), "is nested in the same test being true with no open()/close() in between: it can never run" if dead
                else "is reachable"), not dead,
                detail="the recovery written for a peer that overwrote its hills file (reset the read position, re-read the state) "
                       "never happens: the reader resumes at a stale offset", func=f.q)
    if n < 1:
        raise AnalysisBroken("no stream-state recovery branch found in the replica readers")


def r8(F, rep):
    rep.rule("C14-R8", "a search result belongs to one iteration: in the multiple-walker code, a boolean that an inner loop sets "
                       "to true (a search over the known peers) and that the enclosing loop tests afterwards is declared, or "
                       "reset to false, inside the body of the enclosing loop -- otherwise the first hit answers the question "
                       "for every later record (peers listed after an already-known one are never added)")
    from .rules_c10 import lvalue_writes

    def walk(n):
        yield n
        for c in X.kids(n):
            if c is not None:
                yield from walk(c)
    LOOPS = ("WhileStmt", "ForStmt", "DoStmt", "CXXForRangeStmt")
    n = 0
    for f in F.funcs.values():
        if f.cls not in ("colvarbias_meta", "colvarbias_abf") or f.body is None or "/src/" not in f.file:
            continue
        decls = {d["d"]: d for d in f.walk() if d["k"] == "VarDecl" and d.get("st") == "local" and "bool" in f.typestr(d.get("t"))}
        for d, decl in decls.items():
            sets = [w for w, t in lvalue_writes(f) if X.strip(t)["k"] == "DeclRefExpr" and X.strip(t).get("d") == d and
                    w["k"] == "BinaryOperator" and w.get("op") == "=" and C._lit(X.strip(X.kids(w)[1])) == 1]
            for w in sets:
                loops = [a for a in f.ancestors(w) if a["k"] in LOOPS]
                if len(loops) < 2:
                    continue
                lin, lout = loops[0], loops[1]
                in_ids = {x["i"] for x in walk(lin)}
                body = lout["c"][-1]
                out_ids = {x["i"] for x in walk(body)} if body is not None else set()
                reads = [x for x in walk(body) if x["k"] == "DeclRefExpr" and x.get("d") == d and x["i"] not in in_ids] if body is not None else []
                reads = [x for x in reads if not any(X.strip(t) is x for w2, t in lvalue_writes(f))]
                if not reads:
                    continue
                n += 1
                fresh = decl["i"] in out_ids or any(
                    X.strip(t)["k"] == "DeclRefExpr" and X.strip(t).get("d") == d and w2["i"] in out_ids and w2["i"] not in in_ids and
                    w2["k"] == "BinaryOperator" and w2.get("op") == "=" and C._lit(X.strip(X.kids(w2)[1])) == 0 for w2, t in lvalue_writes(f))
                rep.add("C14-R8", "%s|%s" % (f.q, decl.get("n")), f.loc(w), "%s: `%s` is set by an inner search loop and tested by the enclosing loop; it is %s" % (
                    f.q, decl.get("n"), "declared or reset inside the enclosing loop's body" if fresh else "NOT re-initialised for each iteration of the enclosing loop"), fresh,
                    detail="after the first hit every later iteration sees the stale answer", func=f.q)
    if n < 1:
        raise AnalysisBroken("C14-R8: no per-iteration search flag found in the multiple-walker code (update_replicas_registry expected)")


def r9(F, rep):
    rep.rule("C14-R9", "each walker's hills go onto that walker's grids: in every project_hills() call whose hills (first argument) "
                       "are taken from a peer `replicas[i]`, the grids passed as targets belong to the same peer; hills taken from "
                       "this bias go onto grids of this bias (members or locals built here)")
    import re as _re

    def owner(f, a):
        k = X.re_strip(X.key(a, f))
        mo = _re.search(r"op\[\]\(this\.replicas, ([^)]*)\)", k)
        if mo:
            return "replicas[%s]" % mo.group(1)
        return "this" if "this." in k else "local"
    n = 0
    for f in F.funcs.values():
        if f.cls != "colvarbias_meta" or f.body is None:
            continue
        for c in X.calls(f):
            if X.callee_name(c) != "project_hills" or len(X.call_args(c)) < 3:
                continue
            a = X.call_args(c)
            src = owner(f, a[0])
            tg = [owner(f, x) for x in a[2:4] if C._lit(X.strip(x)) is None]
            n += 1
            if src.startswith("replicas["):
                ok = all(t == src for t in tg)
            else:
                ok = all(not t.startswith("replicas[") for t in tg)
            rep.add("C14-R9", "%s|project_hills(%s)" % (f.q, src), f.loc(c), "%s projects hills of `%s` onto grids of %s" % (f.q, src, sorted(set(tg))), ok,
                    detail="a peer's hills written onto this walker's own grids end up in its state file and partial free energy: they are "
                           "counted again whenever a state is read back", func=f.q)
    if n < 3:
        raise AnalysisBroken("C14-R9: only %d project_hills() calls found" % n)


def run(F, rep, tier):
    from .rules_c03 import written_steps
    written_steps(F, rep, "C14-R10")   # stamps compared between walkers are on one time axis
    r8(F, rep)
    r9(F, rep)
    r1(F, rep)
    r2_r3(F, rep)
    r4(F, rep)
    r5(F, rep)
    r6(F, rep)
    r7(F, rep)
