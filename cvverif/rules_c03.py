"""C03  A run resumed from a saved state is indistinguishable from an uninterrupted run.

R1  parameter keys: written keys are read back, required/identifying keys are written
R2  bulk data sections: writer and reader agree on the ordered (key) sequence for both stream kinds
R3  accumulators are persisted
R4  accumulation is gated on eligibility
R5  every object is asked, in the same order, by writer and reader
"""
import re

from . import expr as X
from . import cond as C
from . import callgraph
from .facts import AnalysisBroken
from .common import load_table

KEYRE = re.compile(r"^\s*([A-Za-z_][A-Za-z_0-9]*)\s+(\S.*)?$", re.S)


def stream_literals(f, root=None):
    """String literals inserted into a stream with <<, in source order."""
    out = []
    for n in f.walk(root):
        if n["k"] != "StringLiteral":
            continue
        p = f.parent(n)
        while p is not None and p["k"] in ("ImplicitCastExpr", "CXXConstructExpr", "CXXFunctionalCastExpr",
                                           "CXXTemporaryObjectExpr"):
            p = f.parent(p)
        if p is not None and p["k"] == "CXXOperatorCallExpr" and p.get("op") == "<<":
            out.append(n)
    return out


def written_keys(f):
    """(key, literal node) for literals that start a `key value` line."""
    out = []
    prev_ended_line = True
    last_stmt = None
    for n in stream_literals(f):
        v = n.get("v") or ""
        # a new statement starts a new chain
        st = n
        p = f.parent(st)
        while p is not None and p["k"] != "CompoundStmt":
            st = p
            p = f.parent(st)
        if st is not last_stmt:
            last_stmt = st
        m = KEYRE.match(v)
        if m and (prev_ended_line or v[:1] in " \t"):
            out.append((m.group(1), n))
        prev_ended_line = v.endswith("\n") or v.strip() == ""
    return out


def read_keys(f):
    out = []
    for c in X.calls(f):
        if X.callee_name(c) in ("get_keyval", "key_lookup") and c.get("cq", "").startswith("colvarparse::"):
            a = X.call_args(c)
            if len(a) >= 2:
                k = X.strip(a[1])
                if k["k"] == "StringLiteral":
                    req = any(X.mentions(x, lambda y: y["k"] == "DeclRefExpr" and y.get("n") == "parse_required")
                              for x in a[2:])
                    # `if (!get_keyval(...)) cvm::error(...)` is also a requirement
                    if not req:
                        p = f.parent(c)
                        if p is not None and p["k"] == "UnaryOperator" and p["op"] == "!":
                            pp = f.parent(p)
                            if pp is not None and pp["k"] == "IfStmt":
                                req = True
                    out.append((k["v"], req, c))
    return out


class StateTables:
    def __init__(self, F):
        self.F = F

    def resolve(self, cls, name):
        fs = self.F.find_method(cls, name)
        # prefer the non-template / single definition
        return fs

    def closure(self, f, name_pred, collect, seen=None):
        """Collect items from f and from the class-qualified sibling functions it delegates to."""
        seen = seen if seen is not None else set()
        if f.m in seen:
            return []
        seen.add(f.m)
        items = [it + (f,) for it in collect(f)]
        for c in X.calls(f):
            tgt = self.F.funcs.get(c.get("callee"))
            if tgt is not None and name_pred(tgt.name) and tgt.m != f.m:
                items += self.closure(tgt, name_pred, collect, seen)
        return items


def r1(F, rep):
    rep.rule("C03-R1", "state parameter keys: every key a class writes in get_state_params() is read by its "
                       "set_state_params()/check_matching_state() (or parse_params for grids), every required or "
                       "identifying key the reader demands is written, and every key the state reader looks for is written")
    T = StateTables(F)
    fams = []
    concrete = set()
    for f in F.funcs.values():
        if f.q == "colvarmodule::parse_biases_type":
            for n in f.walk():
                if n["k"] == "CXXNewExpr":
                    concrete.add(f.typestr(n.get("at")))
    if len(concrete) < 8:
        raise AnalysisBroken("only %d concrete bias classes found through parse_biases_type<>" % len(concrete))
    for cq in sorted(concrete):
        fams.append((cq, "get_state_params", ("set_state_params", "check_matching_state"), True))
    fams.append(("colvar", "get_state_params", ("set_state_params", "check_matching_state"), True))
    for cq in sorted(c for c in F.classes if c.startswith("colvar_grid") and c != "colvar_grid_params"):
        fams.append((cq, "get_state_params", ("parse_params",), False))
    n_classes = 0
    for cq, wname, rnames, strict_read in fams:
        ws = T.resolve(cq, wname)
        if not ws:
            continue
        W = []
        for w in ws:
            W += T.closure(w, lambda n: n == wname, written_keys)
        R = []
        readers = []
        for rn in rnames:
            for r in T.resolve(cq, rn):
                readers.append(r)
                R += T.closure(r, lambda n: n in rnames, read_keys)
        if not readers:
            continue
        n_classes += 1
        wkeys = {k for k, _, _ in W}
        rkeys = {k for k, _, _, _ in R}
        for k, node, wf in W:
            ok = k in rkeys
            rep.add("C03-R1", "%s|written-read|%s" % (cq, k), wf.loc(node),
                    "key `%s` written by %s::%s is %s by its reader" % (k, cq, wname, "read" if ok else "NOT read"),
                    ok, detail="a saved quantity that is not restored differs after a restart", func="%s::%s" % (cq, wname))
        for k, req, node, rf in R:
            if req or (strict_read and k == "name"):
                ok = k in wkeys
                rep.add("C03-R1", "%s|required-written|%s" % (cq, k), rf.loc(node),
                        "key `%s` demanded by the state reader of %s is %s" % (k, cq, "written" if ok else "NOT written by its writer"),
                        ok, detail="the class cannot read back its own state", func="%s::%s" % (cq, rnames[0]))
            elif strict_read:
                ok = k in wkeys
                rep.add("C03-R1", "%s|read-written|%s" % (cq, k), rf.loc(node),
                        "key `%s` looked for by the state reader of %s is %s" % (k, cq, "written" if ok else "never written"),
                        ok, detail="the reader silently keeps the default after every restart", func="%s::%s" % (cq, rnames[0]))
    rep.count("state_param_classes", n_classes)


# --------------------------------------------------------------------------------
def flag_atoms(f, node, res):
    """Guard atoms that talk about configuration/feature flags of the object (not
    about the stream, locals or loop counters)."""
    out = []
    for cid, pol in f.cfg.guards(node):
        cn = f.nodes[cid]
        if X.mentions(cn, lambda x: x["k"] == "DeclRefExpr" and x.get("st") in ("local", "param")):
            continue
        t = X.key(cn, f, res)
        # normalise `!(x)` is False  ->  x is True
        n = X.strip(cn)
        while n["k"] == "UnaryOperator" and n["op"] == "!":
            n = X.strip(X.kids(n)[0])
            pol = not pol
            t = X.key(n, f, res)
        out.append((t, pol))
    return tuple(sorted(set(out)))


def data_sequence(F, f, prim, res_cache, seen=None):
    """Ordered [(key, flag atoms, payload receiver)] of state-data sections in f,
    following calls into *_template_ helpers and into base-class data functions."""
    seen = seen if seen is not None else set()
    if f.m in seen:
        return []
    seen.add(f.m)
    res = X.const_locals(f)
    out = []
    calls = list(X.calls(f))
    for i, c in enumerate(calls):
        nm = X.callee_name(c)
        if nm == prim:
            a = X.call_args(c)
            k = X.strip(a[1]) if len(a) > 1 else None
            key = k.get("v") if k is not None and k["k"] == "StringLiteral" else (X.text(a[1], f) if len(a) > 1 else "?")
            # payload: the next member call on an object (write_raw/read_raw/...) after this one
            payload = None
            for d in calls[i + 1:i + 12]:
                if d["k"] == "CXXMemberCallExpr" and X.callee_name(d) in ("write_raw", "read_raw", "write_restart", "read_restart"):
                    r = X.receiver(d)
                    payload = X.text(r, f) if r is not None else None
                    break
                if X.callee_name(d) == prim:
                    break
            out.append((key, flag_atoms(f, c, res), payload))
        elif nm in ("write_state_data_template_", "read_state_data_template_", "write_state_data", "read_state_data") and c.get("callee"):
            g = F.funcs.get(c["callee"])
            if g is not None and g.m != f.m:
                sub = data_sequence(F, g, prim, res_cache, seen)
                fa = flag_atoms(f, c, res)
                out += [(k, tuple(sorted(set(at + fa))), p) for k, at, p in sub]
    return out


def reader_closure(F, f, seen=None):
    seen = seen if seen is not None else {}
    if f.m in seen:
        return []
    seen[f.m] = f
    for c in X.calls(f):
        g = F.funcs.get(c.get("callee"))
        if g is not None and g.cls == f.cls and ("read" in g.name):
            reader_closure(F, g, seen)
    return list(seen.values())


def stream_kind(f):
    if not f.params:
        return None
    t = f.typestr(f.params[0]["t"])
    if "memory_stream" in t:
        return "binary"
    if "basic_istream" in t or "basic_ostream" in t:
        return "text"
    return None


def r2(F, rep):
    rep.rule("C03-R2", "bulk state data: for each bias class and each stream kind (text, binary) the writer and the "
                       "reader go through the same ordered sequence of (section key, feature guards, payload object)")
    n = 0
    classes = sorted({f.cls for f in F.funcs.values() if f.name in ("write_state_data", "read_state_data") and f.cls})
    for cq in classes:
        for kind in ("text", "binary"):
            ws = [f for f in F.funcs.values() if f.cls == cq and f.name == "write_state_data" and stream_kind(f) == kind]
            rs = [f for f in F.funcs.values() if f.cls == cq and f.name == "read_state_data" and stream_kind(f) == kind]
            if not ws or not rs:
                continue
            W = data_sequence(F, ws[0], "write_state_data_key", {})
            R = data_sequence(F, rs[0], "read_state_data_key", {})
            if not W and not R:
                continue
            if not R or not W:
                # one side does not use the keyed-section helpers (hand-written format): compare key sets only
                rep.count("classes_with_handwritten_reader")
                continue
            n += 1
            # sections one side handles with a hand-written format (metadynamics hills, OPES header):
            # the reader must at least know the literal key; the keyed sections are compared in order
            rk = {k for k, _, _ in R}
            wk = {k for k, _, _ in W}
            lits = set()
            for g in reader_closure(F, rs[0]):
                for x in g.walk():
                    if x["k"] == "StringLiteral":
                        lits.add(repr(x.get("v")))
            for k, _, _ in W:
                if k not in rk and k.startswith("'"):
                    rep.add("C03-R2", "%s|%s|handwritten|%s" % (cq, kind, k), ws[0].loc(),
                            "section %s written by %s is %s by its (hand-written) reader" % (k, cq, "recognised" if k in lits else "UNKNOWN"),
                            k in lits, func=rs[0].q)
            W = [w for w in W if w[0] in rk]
            R = [r for r in R if r[0] in wk]
            ok = W == R
            detail = ""
            if not ok:
                for i in range(max(len(W), len(R))):
                    w = W[i] if i < len(W) else None
                    r = R[i] if i < len(R) else None
                    if w != r:
                        detail = "first difference at section %d: writer %s, reader %s" % (i, w, r)
                        break
            rep.add("C03-R2", "%s|%s" % (cq, kind), ws[0].loc(),
                    "%s %s state: writer and reader sections %s (%d sections: %s)" % (
                        cq, kind, "agree" if ok else "DISAGREE", len(W), ", ".join(k for k, _, _ in W)),
                    ok, detail=detail, func=ws[0].q)
    rep.count("state_data_class_kinds", n)
    # both overloads of a class must behave the same: text and binary sequences agree
    for cq in classes:
        seqs = {}
        for kind in ("text", "binary"):
            ws = [f for f in F.funcs.values() if f.cls == cq and f.name == "write_state_data" and stream_kind(f) == kind]
            if ws:
                seqs[kind] = data_sequence(F, ws[0], "write_state_data_key", {})
        if len(seqs) == 2 and (seqs["text"] or seqs["binary"]):
            ok = seqs["text"] == seqs["binary"]
            rep.add("C03-R2", "%s|text-vs-binary" % cq, "", "%s: text and binary writers emit %s section sequence" % (
                cq, "the same" if ok else "DIFFERENT"), ok,
                detail="" if ok else "text %s vs binary %s" % (seqs["text"], seqs["binary"]), func=cq + "::write_state_data")


def r5(F, rep):
    rep.rule("C03-R5", "every object is asked: the module's state writer and both readers iterate over the same containers "
                       "(colvars, then biases) and call write_state/read_state on each element")
    def container_seq(f, method):
        out = []
        for c in X.calls(f):
            if c["k"] == "CXXMemberCallExpr" and X.callee_name(c) == method:
                r = X.receiver(c)
                # which container does the loop variable iterate?
                conts = []
                for a in f.ancestors(c):
                    if a["k"] in ("ForStmt", "CXXForRangeStmt"):
                        for x in f.walk(X.kids(a)[0] if a["k"] == "ForStmt" else a):
                            if x["k"] == "MemberExpr" and x.get("q") in ("colvarmodule::colvars", "colvarmodule::biases"):
                                conts.append(x["q"].split("::")[-1])
                                break
                        break
                rk = c.get("rc", "")
                out.append((conts[0] if conts else "?", rk))
        return out
    w = [f for f in F.funcs.values() if f.q == "colvarmodule::write_state_template_"]
    if not w:
        w = F.need("colvarmodule::write_state")
    seqs = {}
    for f in w:
        seqs[f.m] = container_seq(f, "write_state")
    rs = F.need("colvarmodule::read_objects_state")
    for f in rs:
        seqs[f.m] = container_seq(f, "read_state")
    expect = [("colvars", "colvar"), ("biases", "colvarbias")]
    for m, s in seqs.items():
        f = F.funcs[m]
        # de-duplicate consecutive
        d = []
        for x in s:
            if not d or d[-1] != x:
                d.append(x)
        ok = d == expect
        rep.add("C03-R5", "%s|%s" % (f.q, stream_kind(f)), f.loc(), "%s visits %s" % (f.q, d), ok,
                detail="expected colvars then biases; the binary format depends on this order", func=f.q)




# --------------------------------------------------------------------------------
MUTATORS = ("acc_value", "acc_force", "incr_count", "add_grid", "push_back", "emplace_back", "add_constant",
            "add_value", "insert")
RESETTERS = ("reset", "clear", "assign", "resize")


def concrete_biases(F):
    out = set()
    for f in F.funcs.values():
        if f.q == "colvarmodule::parse_biases_type":
            for n in f.walk():
                if n["k"] == "CXXNewExpr":
                    out.add(f.typestr(n.get("at")))
    if len(out) < 8:
        raise AnalysisBroken("only %d concrete bias classes found through parse_biases_type<>" % len(out))
    return out


def update_reach(F, cg, cq):
    fam = set(F.bases(cq))
    roots = [g.m for g in F.find_method(cq, "update")]

    def follow(caller, call, tgt):
        t = F.funcs.get(tgt)
        if t is None or t.cls not in fam:
            return False
        if call["k"] == "CXXMemberCallExpr":
            r = X.receiver(call)
            return r is not None and X.strip(r)["k"] == "CXXThisExpr"
        return call["k"] == "LambdaExpr"
    return roots, cg.reachable(roots, follow), follow


def self_updates(f):
    """(write node, member name, member qualified name or receiver text, kind) for updates of a
    data member from its own previous value, and mutating calls on owned containers/grids."""
    from .rules_c10 import lvalue_writes, member_root
    for w, tgt in lvalue_writes(f):
        mr = member_root(tgt)
        kind = None
        if mr is None:
            if w["k"] == "CXXMemberCallExpr" and X.callee_name(w) in MUTATORS:
                r = X.receiver(w)
                if r is not None:
                    rr = X.strip(r)
                    # this->member-> / *this->member . mutator
                    for x in f.walk(rr):
                        if x["k"] == "MemberExpr" and x.get("dk") == "Field":
                            b = X.strip(X.kids(x)[0]) if X.kids(x) else None
                            if b is not None and b["k"] == "CXXThisExpr":
                                yield w, x["n"], x.get("q"), X.callee_name(w)
                                break
            continue
        if w["k"] == "CompoundAssignOperator" and w["op"] in ("+=", "-=", "*=", "/="):
            kind = w["op"]
        elif w["k"] == "UnaryOperator" and w["op"] in ("++", "post++", "--", "post--"):
            kind = w["op"]
        elif w["k"] == "CXXOperatorCallExpr" and w.get("op") in ("+=", "-=", "*=", "++", "--"):
            kind = "op" + w["op"]
        elif w["k"] == "CXXMemberCallExpr" and X.callee_name(w) in MUTATORS:
            kind = X.callee_name(w)
        elif w["k"] == "BinaryOperator" and w["op"] == "=":
            rhs = X.kids(w)[1]
            if X.mentions(rhs, lambda x: x["k"] == "MemberExpr" and x.get("q") == mr.get("q")):
                kind = "=self"
        if kind:
            yield w, mr["n"], mr.get("q"), kind


def plain_resets(f, mq):
    """Writes that give member mq a value independent of its previous one."""
    from .rules_c10 import lvalue_writes, member_root
    out = []
    for w, tgt in lvalue_writes(f):
        mr = member_root(tgt)
        if mr is None or mr.get("q") != mq:
            continue
        if w["k"] == "BinaryOperator" and w["op"] == "=":
            rhs = X.kids(w)[1]
            if not X.mentions(rhs, lambda x: x["k"] == "MemberExpr" and x.get("q") == mq):
                out.append(w)
        elif w["k"] == "CXXOperatorCallExpr" and w.get("op") == "=":
            out.append(w)
        elif w["k"] == "CXXMemberCallExpr" and X.callee_name(w) in RESETTERS:
            out.append(w)
    return out


ELIGIBLE = (("true", "this.can_accumulate_data()"), ("cmp", ">", "colvarmodule::step_relative()", "0"),
            ("false", "this.m_is_first_step"),
            # shared ABF: data from peers is merged only when time has passed since the last exchange
            # (shared_last_step is set to the current step when a state is loaded)
            ("cmp", ">", "colvarmodule::step_absolute()", "this.shared_last_step"))


def structural_guards(f, site):
    """(cond node, polarity) for every enclosing if/?:/loop whose branch contains the site
    (AST structure; complements edge dominance for disjunctive conditions)."""
    out = []
    cur = site
    for a in f.ancestors(site):
        if a["k"] in ("IfStmt", "ConditionalOperator"):
            cs = a.get("c", [])
            # IfStmt children: [condvar decl?], cond, then, else
            if a["k"] == "IfStmt" and len(cs) == 4:
                cs = cs[1:]
            if len(cs) >= 2 and cs[1] is cur:
                out.append((cs[0], True))
            elif len(cs) >= 3 and cs[2] is cur:
                out.append((cs[0], False))
        cur = a
    return out


def eligible_disjunction(f, site, res):
    """`step_relative() > 0 || is_enabled(f_cvb_step_zero_data)` written inline."""
    for cn, pol in structural_guards(f, site):
        if not pol or cn is None:
            continue
        n = X.strip(cn)
        if n["k"] == "BinaryOperator" and n["op"] == "||":
            a, b = X.kids(n)
            for p, q in ((a, b), (b, a)):
                if ("cmp", ">", "colvarmodule::step_relative()", "0") in C.facts(f, p, True, res) and \
                        "f_cvb_step_zero_data" in X.key(q, f, res):
                    return True
    return False


def callee_resets(F, f, mq, site):
    """A call (on this) that dominates the site and whose callee unconditionally gives
    member mq a fresh value (e.g. colvarbias::update() -> calc_energy() zeroes bias_energy)."""
    for c in X.calls(f):
        if c["k"] != "CXXMemberCallExpr":
            continue
        r = X.receiver(c)
        if r is None or X.strip(r)["k"] != "CXXThisExpr":
            continue
        if not f.cfg.dominates(c, site):
            continue
        stack, seen = [c.get("callee")], set()
        depth = 0
        while stack and depth < 30:
            depth += 1
            m = stack.pop()
            if m in seen or m is None:
                continue
            seen.add(m)
            g = F.funcs.get(m)
            if g is None:
                continue
            for w in plain_resets(g, mq):
                if not g.cfg.real_guards(w):
                    return True
            for c2 in X.calls(g):
                if c2["k"] == "CXXMemberCallExpr" and not g.cfg.real_guards(c2):
                    r2 = X.receiver(c2)
                    if r2 is not None and X.strip(r2)["k"] == "CXXThisExpr":
                        for t in [c2.get("callee")] + sorted(F.overriders(c2.get("callee"))) if c2.get("virt") else [c2.get("callee")]:
                            stack.append(t)
    return False


def r4(F, rep):
    rep.rule("C03-R4", "accumulation is gated on eligibility: every update of a cross-step accumulator on a bias's "
                       "update() path is edge-dominated (in its function or in every caller up to update()) by "
                       "can_accumulate_data(), step_relative() > 0 or the bias's own first-step flag, so the repeated "
                       "first step of a resumed run does not accumulate twice")
    cg = callgraph.get(F)
    exempt = {(e["function"], e["member"]): e for e in load_table("c03_exempt.json")["R4"]}
    results = {}
    for cq in sorted(concrete_biases(F)):
        roots, reach, follow = update_reach(F, cg, cq)

        def gated(f, site, depth=0, seen=frozenset()):
            res = X.const_locals(f)
            facts, gs = C.guard_facts(f, site, res)
            for e in ELIGIBLE:
                if e in facts:
                    return "gated by %s in %s" % (" ".join(e[1:]) if e[0] == "cmp" else e[-1], f.q)
            if eligible_disjunction(f, site, res):
                return "gated by step_relative() > 0 || f_cvb_step_zero_data in %s" % f.q
            if f.m in roots or depth > 5 or f.m in seen:
                return None
            callers = [(g, c) for g, c in cg.callers(f.m) if g.m in reach and follow(g, c, f.m)]
            if not callers:
                return None
            why = set()
            for g, c in callers:
                r = gated(g, c, depth + 1, seen | {f.m})
                if not r:
                    return None
                why.add(r)
            return "; ".join(sorted(why))

        for m in reach:
            f = F.funcs.get(m)
            if f is None or not f.cfg.ok:
                continue
            for w, name, mq, kind in self_updates(f):
                # per-step temporaries: reset in the same function before the update
                if any(f.cfg.dominates(r, w) for r in plain_resets(f, mq)):
                    continue
                if callee_resets(F, f, mq, w):
                    continue
                key = "%s|%s|%s" % (f.q, name, kind)
                if key in results and not results[key][0]:
                    continue
                why = gated(f, w)
                if why is None and (f.q, name) in exempt:
                    e = exempt[(f.q, name)]
                    if e.get("under"):
                        facts, _ = C.guard_facts(f, w, X.const_locals(f))
                        if tuple(e["under"]) in facts:
                            why = "exempt: " + e["reason"]
                    else:
                        why = "exempt: " + e["reason"]
                results[key] = (why is not None, f.loc(w),
                                "accumulator `%s` (%s) %s" % (name, kind, why or "is updated without an eligibility gate"),
                                "on the first step of a resumed run this update would be applied a second time", f.q)
    for key, (ok, loc, what, detail, fq) in results.items():
        rep.add("C03-R4", key, loc, what, ok, detail=detail, func=fq)




# --------------------------------------------------------------------------------
def family_closure(F, cq, start_names, name_ok):
    """Functions of the class family of cq reachable from methods named start_names through
    same-object calls to methods accepted by name_ok."""
    fam = set(F.bases(cq))
    out, stack = {}, []
    for nm in start_names:
        for g in F.find_method(cq, nm):
            stack.append(g)
        # all overloads up the hierarchy with that name
        for b in fam:
            for g in F.funcs.values():
                if g.cls == b and g.name == nm:
                    pass
    while stack:
        g = stack.pop()
        if g.m in out:
            continue
        out[g.m] = g
        for c in X.calls(g):
            t = F.funcs.get(c.get("callee"))
            if t is not None and t.cls in fam and name_ok(t.name):
                stack.append(t)
    return list(out.values())


def in_condition(f, n):
    """Is node n inside the condition of an if / loop / ?: (not in a branch body)?"""
    cur = n
    for a in f.ancestors(n):
        k = a["k"]
        cs = a.get("c", [])
        if k == "IfStmt":
            cond = cs[1] if len(cs) == 4 else cs[0]
            if cond is cur:
                return True
        elif k in ("WhileStmt", "ConditionalOperator") and cs and cs[0] is cur:
            return True
        elif k == "ForStmt" and len(cs) >= 3 and cs[1] is cur:
            return True
        elif k == "DoStmt" and len(cs) == 2 and cs[1] is cur:
            return True
        cur = a
    return False


def fields_read(f, skip_conditions=False):
    out = set()
    for n in f.walk():
        if n["k"] == "MemberExpr" and n.get("dk") == "Field":
            if skip_conditions and in_condition(f, n):
                continue
            b = X.strip(X.kids(n)[0]) if X.kids(n) else None
            if b is not None and b["k"] == "CXXThisExpr":
                out.add(n["q"])
    return out


def fields_written(f):
    from .rules_c10 import lvalue_writes, member_root
    out = set()
    for w, tgt in lvalue_writes(f):
        mr = member_root(tgt)
        if mr is not None:
            out.add(mr["q"])
            continue
        # this->member->read_raw(is) / this->member.something non-const
        for x in f.walk(tgt):
            if x["k"] == "MemberExpr" and x.get("dk") == "Field":
                b = X.strip(X.kids(x)[0]) if X.kids(x) else None
                if b is not None and b["k"] == "CXXThisExpr":
                    out.add(x["q"])
    # stream extraction targets:  is >> member
    for n in f.walk():
        if n["k"] == "CXXOperatorCallExpr" and n.get("op") == ">>":
            a = X.call_args(n)
            if len(a) == 2:
                mr = member_root(a[1])
                if mr is not None:
                    out.add(mr["q"])
    return out


def r3(F, rep):
    rep.rule("C03-R3", "accumulators are persisted and restored: every cross-step accumulator a bias updates on its "
                       "update() path is serialised by its state writer, and every run-time field the writer "
                       "serialises is assigned by the state reader")
    cg = callgraph.get(F)
    exempt = {(e["class"], e["member"]): e["reason"] for e in load_table("c03_exempt.json")["R3"]}
    exempt4 = {(e["function"], e["member"]): e["reason"] for e in load_table("c03_exempt.json")["R4"] if not e.get("under")}
    wnames = ("get_state_params", "write_state_data", "write_state")
    rnames = ("set_state_params", "read_state_data", "read_state")
    w_ok = lambda n: n.startswith("write_state") or n.startswith("get_state") or n in ("write_hill", "write_raw")
    r_ok = lambda n: n.startswith("read_state") or n.startswith("set_state") or n in ("read_hill", "read_raw", "check_matching_state")
    for cq in sorted(concrete_biases(F)):
        wf = family_closure(F, cq, wnames, w_ok)
        rf = family_closure(F, cq, rnames, r_ok)
        W = set().union(*[fields_read(g, skip_conditions=True) for g in wf]) if wf else set()
        R = set().union(*[fields_written(g) for g in rf]) if rf else set()
        roots, reach, follow = update_reach(F, cg, cq)
        dynamic = set()
        accs = {}
        for m in reach:
            f = F.funcs.get(m)
            if f is None or not f.cfg.ok:
                continue
            dynamic |= fields_written(f)
            for w, name, mq, kind in self_updates(f):
                if mq is None:
                    continue
                if any(f.cfg.dominates(r, w) for r in plain_resets(f, mq)) or callee_resets(F, f, mq, w):
                    continue
                accs.setdefault(mq, (f, w, kind))
        # snapshots: `S = A` on the update path with S serialised persists A
        snap = {}
        from .rules_c10 import lvalue_writes, member_root
        for m in reach:
            f = F.funcs.get(m)
            if f is None:
                continue
            for w, tgt in lvalue_writes(f):
                mr = member_root(tgt)
                if mr is None or mr["q"] not in W:
                    continue
                rhs = None
                if w["k"] == "BinaryOperator" and w["op"] == "=":
                    rhs = X.kids(w)[1]
                elif w["k"] == "CXXOperatorCallExpr" and w.get("op") == "=":
                    rhs = X.call_args(w)[1]
                if rhs is not None:
                    r = member_root(rhs)
                    if r is not None:
                        snap[r["q"]] = mr["q"]
        for mq, (f, w, kind) in sorted(accs.items()):
            name = mq.split("::")[-1]
            ok = mq in W
            why = "serialised by the state writer"
            if not ok and mq in snap:
                ok, why = True, "serialised through its snapshot `%s`" % snap[mq].split("::")[-1]
            if not ok and (f.q, name) in exempt4:
                ok, why = True, "exempt: " + exempt4[(f.q, name)]
            if not ok and (cq, name) in exempt:
                ok, why = True, "exempt: " + exempt[(cq, name)]
            rep.add("C03-R3", "%s|persisted|%s" % (cq, mq), f.loc(w),
                    "accumulator `%s` of %s (%s in %s) is %s" % (name, cq, kind, f.q, why if ok else "NOT written to the state"),
                    ok, detail="its value is lost at a restart, so the resumed run differs from the uninterrupted one", func=f.q)
        for mq in sorted(W & dynamic):
            name = mq.split("::")[-1]
            ok = mq in R
            why = "restored by the state reader"
            if not ok and (cq, name) in exempt:
                ok, why = True, "exempt: " + exempt[(cq, name)]
            rep.add("C03-R3", "%s|restored|%s" % (cq, mq), wf[0].loc() if wf else "",
                    "run-time field `%s` serialised by %s is %s" % (name, cq, why if ok else "NOT assigned by its state reader"),
                    ok, detail="saving immediately after loading would not reproduce the loaded state", func=cq)


def schedule_sites(F):
    """(f, node, step-function name, frequency key) for every `step() % freq` in the library, step() being
    colvarmodule::step_absolute() or step_relative()."""
    for f in F.funcs.values():
        if "/src/" not in f.file:
            continue
        seen = set()
        for n in f.walk():
            if n["k"] == "BinaryOperator" and n["op"] == "%":
                a, b = X.kids(n)
                ka = X.re_strip(X.key(a, f))
                for fn in ("step_absolute", "step_relative"):
                    if ka == "colvarmodule::%s()" % fn:
                        yield f, n, fn, X.re_strip(X.key(b, f))


def r6(F, rep):
    rep.rule("C03-R6", "periodic schedules (output, deposition, exchange, wake-up) are functions of the ABSOLUTE step: every "
                       "test `step % frequency` in the library takes the step from step_absolute(); the only users of "
                       "step_relative() are the run-local caches listed in tables/c03_exempt.json (R6), which are rebuilt at "
                       "the start of every run anyway")
    exempt = {e["frequency"]: e["reason"] for e in load_table("c03_exempt.json").get("R6", [])}
    n = 0
    seen = set()
    for f, node, fn, freq in schedule_sites(F):
        key = "%s|%s" % (f.q, freq)
        if (key, fn) in seen:
            continue
        seen.add((key, fn))
        n += 1
        short = freq.split(".")[-1].split("::")[-1]
        if fn == "step_relative" and short in exempt:
            rep.add("C03-R6", key, f.loc(node), "%s: step_relative() %% %s -- exempt: %s" % (f.q, short, exempt[short]), True, func=f.q)
            continue
        rep.add("C03-R6", key, f.loc(node), "%s: schedule test on %s uses %s()" % (f.q, short, fn), fn == "step_absolute",
                detail="a run resumed at a step that is not a multiple of the frequency would follow a shifted schedule", func=f.q)
    if n < 20:
        raise AnalysisBroken("only %d `step %% frequency` tests found" % n)


# --------------------------------------------------------------------------------
def bool_eval(f, n, env, res):
    """Evaluate a condition over an assignment of its leaf atoms (canonical keys -> bool); unknown leaves are atoms."""
    n = X.strip(n)
    if n["k"] == "DeclRefExpr" and res and n.get("d") in res:
        return bool_eval(f, res[n["d"]], env, res)
    if n["k"] == "BinaryOperator" and n["op"] == "&&":
        a, b = X.kids(n)
        return bool_eval(f, a, env, res) and bool_eval(f, b, env, res)
    if n["k"] == "BinaryOperator" and n["op"] == "||":
        a, b = X.kids(n)
        return bool_eval(f, a, env, res) or bool_eval(f, b, env, res)
    if n["k"] == "UnaryOperator" and n["op"] == "!":
        return not bool_eval(f, X.kids(n)[0], env, res)
    return env[X.re_strip(X.key(n, f, res))]


def bool_atoms(f, n, res, out):
    n = X.strip(n)
    if n["k"] == "DeclRefExpr" and res and n.get("d") in res:
        return bool_atoms(f, res[n["d"]], res, out)
    if n["k"] == "BinaryOperator" and n["op"] in ("&&", "||"):
        for c in X.kids(n):
            bool_atoms(f, c, res, out)
    elif n["k"] == "UnaryOperator" and n["op"] == "!":
        bool_atoms(f, X.kids(n)[0], res, out)
    else:
        out.add(X.re_strip(X.key(n, f, res)))
    return out


def all_guards(f, site):
    """[(cond node, polarity)]: enclosing if/?: conditions (whole, so disjunctions are kept) plus the edge-dominating
    leaf conditions of the CFG (early returns)."""
    out = [(cn, pol) for cn, pol in structural_guards(f, site) if cn is not None]
    ids = {cn["i"] for cn, _ in out}
    for cid, pol in f.cfg.real_guards(site):
        if cid not in ids:
            out.append((f.nodes[cid], pol))
    return out


def r7(F, rep):
    rep.rule("C03-R7", "a parameter that is saved only under some configuration is saved under every configuration in which "
                       "the bias uses it: for each key that a get_state_params() writes inside a condition, the member it "
                       "stores is read (as a value) on the class's update() path only under flag assignments for which the "
                       "writer's condition holds (truth table over the boolean atoms of both conditions)")
    import itertools
    n = 0
    for w in F.funcs.values():
        if w.name != "get_state_params" or not w.cls or not w.cfg.ok:
            continue
        wres = X.const_locals(w)
        for key, lit in written_keys(w):
            gs = all_guards(w, lit)
            if not gs:
                continue
            # the member streamed after the literal
            top = lit
            for a in w.ancestors(lit):
                if a["k"] == "CXXOperatorCallExpr" and a.get("op") == "<<":
                    top = a
                elif a["k"] != "ImplicitCastExpr":
                    break
            member, started = None, False
            for x in w.walk(top):
                if x is lit:
                    started = True
                elif started and x["k"] == "StringLiteral":
                    if (x.get("v") or "").strip():
                        break
                elif started and x["k"] == "MemberExpr" and x.get("dk") == "Field" and X.kids(x) and X.strip(X.kids(x)[0])["k"] == "CXXThisExpr":
                    member = x
                    break
            if member is None:
                continue
            mq = member["q"]
            # value uses of the member on the update paths of the classes that inherit this writer
            uses = []
            fam = F.subclasses(w.cls, strict=False) if hasattr(F, "subclasses") else [w.cls]
            for g in F.funcs.values():
                if g.cls not in fam or g.name not in ("update", "update_centers", "update_acc_work", "update_k", "calc_energy", "calc_forces") or not g.cfg.ok:
                    continue
                for x in g.walk():
                    if x["k"] == "MemberExpr" and x.get("q") == mq:
                        # not the target of an assignment
                        p = g.parent(x)
                        if p is not None and p["k"] in ("BinaryOperator", "CompoundAssignOperator") and p.get("op") == "=" and X.strip(X.kids(p)[0]) is x:
                            continue
                        # values that only end up in a log or error message are diagnostics, not behaviour
                        if any(a["k"] == "CallExpr" and a.get("cq") in ("colvarmodule::log", "colvarmodule::error") for a in g.ancestors(x)):
                            continue
                        uses.append((g, x))
            if not uses:
                continue
            n += 1
            watoms = set()
            for cn, pol in gs:
                bool_atoms(w, cn, wres, watoms)
            witness = None
            for g, x in uses:           # one truth table per use site
                gres = X.const_locals(g)
                conds = all_guards(g, x)
                atoms = set(watoms)
                for cn, pol in conds:
                    bool_atoms(g, cn, gres, atoms)
                atoms = sorted(atoms)
                if len(atoms) > 14:
                    witness = "too many atoms (%d) at %s" % (len(atoms), g.loc(x))
                    break
                for vals in itertools.product((True, False), repeat=len(atoms)):
                    env = dict(zip(atoms, vals))
                    written = all(bool_eval(w, cn, env, wres) == pol for cn, pol in gs)
                    used = all(bool_eval(g, cn, env, gres) == pol for cn, pol in conds)
                    if used and not written:
                        witness = "%s at %s" % ({k.replace("this.", ""): v for k, v in env.items() if k in watoms}, g.loc(x))
                        break
                if witness is not None:
                    break
            rep.add("C03-R7", "%s|%s" % (w.cls, key), w.loc(lit), "%s: key `%s` (member %s) is written under %s; the member is used at %d site(s) of the update path%s" % (
                w.cls, key, mq.split("::")[-1], [(X.text(c, w)[:60], p) for c, p in gs], len(uses),
                "" if witness is None else "; with %s it is used but NOT saved" % (witness,)), witness is None,
                detail="the resumed run would use the value of a freshly constructed object", func=w.q)
    if n < 2:
        raise AnalysisBroken("only %d conditionally written state keys with uses on an update path" % n)


def r8(F, rep):
    rep.rule("C03-R8", "a state block goes to the object that consumes it: in the text-format reader "
                       "colvarmodule::read_objects_state(std::istream&), the search over variables and the search over biases "
                       "stop only when the stream position has advanced (is.tellg() > pos) -- an object whose name does not "
                       "match rewinds and returns a good stream, so success of read_state() alone does not mean 'found'")
    fs = [f for f in F.func_q("colvarmodule::read_objects_state") if f.params and "istream" in f.typestr(f.params[0]["t"])]
    if not fs:
        raise AnalysisBroken("colvarmodule::read_objects_state(std::istream&) not found")
    f = fs[0]
    res = X.const_locals(f)
    found = {}
    for b in f.walk():
        if b["k"] != "BreakStmt":
            continue
        loops = [a for a in f.ancestors(b) if a["k"] in ("ForStmt", "CXXForRangeStmt")]
        if not loops:
            continue
        hdr = " ".join(X.re_strip(X.key(h, f)) for h in loops[0]["c"][:3] if h is not None) if loops[0]["k"] == "ForStmt" else X.re_strip(X.key(loops[0], f))
        which = "colvars" if "colvars" in hdr else ("biases" if "biases" in hdr else None)
        if which is None:
            continue
        # a break is a jump, not a CFG element: take the conditions of the enclosing ifs (up to the loop)
        facts, gs = set(), []
        for cn, pol in structural_guards(f, b):
            if cn is None or not any(a is loops[0] for a in f.ancestors(cn)):
                continue
            facts |= C.facts(f, cn, pol, res)
            gs.append((cn["i"], pol))
        adv = any(t[0] == "cmp" and ((t[1] == ">" and "tellg()" in t[2]) or (t[1] == "<" and "tellg()" in t[3])) for t in facts)
        found[which] = adv
        rep.add("C03-R8", "found|%s" % which, f.loc(b), "the search over %s stops when %s" % (which, "the stream position has advanced" if adv else
                "something else holds: %s" % [(X.text(f.nodes[c], f)[:50], p) for c, p in gs if "size()" not in X.key(f.nodes[c], f)][:3]), adv,
                detail="with two objects sharing a state keyword (all restraints do) the block of the second is offered to the first, "
                       "which rewinds; the search stops and the block is discarded: the second object silently restarts from scratch", func=f.q)
    if len(found) < 2:
        raise AnalysisBroken("read_objects_state: searches over colvars and biases not found (%s)" % sorted(found))


def r9(F, rep):
    rep.rule("C03-R9", "metadynamics hills survive a restart: (a) the state announces explicit hills (`keepHills on`) under exactly "
                       "the condition under which the writer emits all of them; (b) a hill that the reader skips as already "
                       "tabulated is still put on the off-grid list when grids are in use (the writer saves those hills for that "
                       "purpose); (c) without grids the explicit sum starts at the first hill after a state has been read")
    import itertools
    gp = F.one("colvarbias_meta::get_state_params")
    lit = [n for n in gp.walk() if n["k"] == "StringLiteral" and "keepHills" in str(n.get("v"))]
    wr = [f for f in F.func_q("colvarbias_meta::write_state_data_template_")]
    if not lit or not wr:
        raise AnalysisBroken("metadynamics state writer / keepHills key not found")
    w = wr[0]
    # the loop that writes every hill: write_hill(os, *h) iterating this->hills
    allh = []
    for c in X.calls(w):
        if X.callee_name(c) == "write_hill":
            loops = [a for a in w.ancestors(c) if a["k"] == "ForStmt"]
            if loops and "this.hills.begin()" in X.re_strip(X.key(loops[0]["c"][0], w)):
                allh.append(c)
    if not allh:
        raise AnalysisBroken("write_state_data: loop over all hills not found")
    ga = [(cn, pol) for cn, pol in structural_guards(gp, lit[0]) if cn is not None]
    gb = [(cn, pol) for cn, pol in structural_guards(w, allh[0]) if cn is not None]
    atoms = set()
    for cn, pol in ga:
        bool_atoms(gp, cn, None, atoms)
    for cn, pol in gb:
        bool_atoms(w, cn, None, atoms)
    atoms = sorted(atoms)
    diff = None
    for vals in itertools.product((True, False), repeat=len(atoms)):
        env = dict(zip(atoms, vals))
        a = all(bool_eval(gp, cn, env, None) == pol for cn, pol in ga)
        b = all(bool_eval(w, cn, env, None) == pol for cn, pol in gb)
        if a != b:
            diff = {k.replace("this.", ""): v for k, v in env.items()}
            break
    rep.add("C03-R9", "announce|keepHills", gp.loc(lit[0]), "`keepHills on` is written under %s; all hills are written under %s%s" % (
        [(X.text(c, gp)[:50], p) for c, p in ga], [(X.text(c, w)[:50], p) for c, p in gb], "" if diff is None else "; they differ for %s" % diff),
        diff is None, detail="the reader skips every hill older than the state unless the state announces explicit hills", func=gp.q)
    rh = F.func_q("colvarbias_meta::read_hill_template_")
    if not rh:
        raise AnalysisBroken("read_hill_template_ not found")
    r = rh[0]
    res = X.const_locals(r)
    skips = []
    for s in r.walk():
        if s["k"] == "ReturnStmt":
            fs = set()
            for cn, pol in structural_guards(r, s):
                if cn is not None:
                    fs |= C.facts(r, cn, pol, res)
            if any(t[0] == "false" and "restart_keep_hills" in t[1] for t in fs):
                skips.append(s)
    if not skips:
        rep.add("C03-R9", "skip|present", r.loc(), "read_hill no longer skips hills that are already tabulated", True, func=r.q)
    for s in skips[:1]:
        # push onto hills_off_grid inside the same branch, under use_grids
        branch = None
        for a in r.ancestors(s):
            if a["k"] == "IfStmt":
                branch = a
                break
        pushes = [c for c in X.calls(r, branch) if c["k"] == "CXXMemberCallExpr" and X.callee_name(c) == "push_back" and
                  X.receiver(c) is not None and "hills_off_grid" in X.key(X.receiver(c), r)] if branch is not None else []
        ok = False
        for c in pushes:
            fs = set()
            for cn, pol in structural_guards(r, c):
                if cn is not None:
                    fs |= C.facts(r, cn, pol, res)
            ok = ok or any(t[0] == "true" and "use_grids" in t[1] for t in fs)
        rep.add("C03-R9", "skip|off-grid-kept", r.loc(s), "a hill skipped as older than the state is %s" % (
            "still put on hills_off_grid when grids are in use" if ok else "DROPPED: nothing keeps it for the analytic sum outside the grid"), ok,
            detail="after a restart the bias outside the grid boundaries lacks the hills deposited near them before the restart", func=r.q)
    rs = F.func_q("colvarbias_meta::read_state_data_template_")
    if not rs:
        raise AnalysisBroken("read_state_data_template_ not found")
    f = rs[0]
    from .rules_c10 import lvalue_writes
    ws = [(x, X.re_strip(X.key((X.kids(x)[1] if x["k"] == "BinaryOperator" else X.call_args(x)[1]), f))) for x, t in lvalue_writes(f)
          if X.key(t, f) == "this.new_hills_begin" and x.get("op") == "="]
    ends = [x for x, k in ws if k.endswith("hills.end()")]
    begins = [x for x, k in ws if k.endswith("hills.begin()")]
    ok = False
    for b in begins:
        fs = set()
        for cn, pol in structural_guards(f, b):
            if cn is not None:
                fs |= C.facts(f, cn, pol, X.const_locals(f))
        nog = any(t[0] == "false" and "use_grids" in t[1] for t in fs)
        last = not any(f.cfg.can_reach(b, e) for e in ends)
        ok = ok or (nog and last)
    rep.add("C03-R9", "explicit-sum|start", f.loc(begins[0]) if begins else f.loc(), "after reading a state without grids new_hills_begin is set back to the first hill (%d site) after its last reset to hills.end() (%d site)" % (
        len(begins), len(ends)), ok, detail="the explicit sum over hills would start after the hills just read: zero bias after a restart", func=f.q)


def r10(F, rep):
    from .rules_c05 import off_grid_membership
    off_grid_membership(F, rep, "C03-R10")


def r11(F, rep):
    from .rules_c15 import mult_offset
    mult_offset(F, rep, "C03-R11")


def r12(F, rep):
    rep.rule("C03-R12", "the state describes one instant: a value that a bias writes under a key (helper called with the key and a "
                        "member) is read back under that key into the same member; where the writer serialises a copy instead "
                        "(`S = A` in the class), the copy is taken after the last update of every other member the writer "
                        "serialises -- otherwise the saved kernels and sums belong to one moment of the step and the saved "
                        "counters to another, and the resumed run (which skips the update of the repeated step) never catches up")
    import re
    from .rules_c10 import lvalue_writes, member_root
    cg = callgraph.get(F)
    wnames = ("get_state_params", "write_state_data", "write_state")
    rnames = ("set_state_params", "read_state_data", "read_state")
    w_ok = lambda n: n.startswith("write_state") or n.startswith("get_state") or n in ("write_hill", "write_raw")
    r_ok = lambda n: n.startswith("read_state") or n.startswith("set_state") or n in ("read_hill", "read_raw", "check_matching_state")

    def pairs(g):
        out = []
        for c in g.walk():
            if c["k"] not in ("CallExpr", "CXXMemberCallExpr", "CXXOperatorCallExpr"):
                continue
            lits, mems = [], []
            for a in X.call_args(c):
                ka = X.key(a, g)
                if re.match(r"^'[^']*'$", ka):
                    lits.append(ka)
                elif X.strip(a)["k"] == "MemberExpr" and ka.startswith("this.") and ka.count(".") == 1:
                    mems.append((X.strip(a)["q"], c))
            if len(lits) == 1 and len(mems) == 1:
                out.append((lits[0], mems[0][0], mems[0][1], g))
        return out
    n = 0
    for cq in sorted(concrete_biases(F)):
        wf = family_closure(F, cq, wnames, w_ok)
        rf = family_closure(F, cq, rnames, r_ok)
        Wp, Rp = {}, {}
        for g in wf:
            for k, m, c, gg in pairs(g):
                Wp.setdefault(k, (m, c, gg))
        for g in rf:
            for k, m, c, gg in pairs(g):
                Rp.setdefault(k, (m, c, gg))
        common = sorted(set(Wp) & set(Rp))
        if not common:
            continue
        W = set().union(*[fields_read(g, skip_conditions=True) for g in wf])
        roots, reach, follow = update_reach(F, cg, cq)
        for k in common:
            (mw, cw, gw), (mr, cr, gr) = Wp[k], Rp[k]
            n += 1
            if mw == mr:
                rep.add("C03-R12", "%s|%s" % (cq, k), gw.loc(cw), "%s: key %s is written from and read into `%s`" % (cq, k, mw.split("::")[-1]), True, func=gw.q)
                continue
            # is mw a copy of mr taken on the update path?
            sites = []
            for m in reach:
                f = F.funcs.get(m)
                if f is None or f.body is None:
                    continue
                for w, tgt in lvalue_writes(f):
                    t = member_root(tgt)
                    if t is None or t["q"] != mw or w.get("op") != "=":
                        continue
                    rhs = X.kids(w)[1] if w["k"] == "BinaryOperator" else (X.call_args(w)[1] if len(X.call_args(w)) > 1 else None)
                    r = member_root(rhs) if rhs is not None else None
                    if r is not None and r["q"] == mr:
                        sites.append((f, w))
            why = "written from `%s` but read into `%s`, and the former is not a copy of the latter" % (mw.split("::")[-1], mr.split("::")[-1])
            ok = False
            if sites:
                # in each root: calls after the copy (or after the call that makes it) must not update other serialised members
                late = set()
                others = W - {mw}
                for rm in roots:
                    g = F.funcs.get(rm)
                    if g is None or not g.cfg.ok:
                        continue
                    anchors = [w for f, w in sites if f.m == rm]
                    for c in X.calls(g):
                        if any(t in {f.m for f, w in sites} or (t in cg.reachable([t], follow) and {f.m for f, w in sites} & cg.reachable([t], follow)) for t in cg.targets(c)):
                            anchors.append(c)
                    for a in anchors:
                        for x in X.calls(g):
                            if x is a or not g.cfg.can_reach(a, x):
                                continue
                            for t in cg.targets(x):
                                if t not in reach:
                                    continue
                                for m2 in cg.reachable([t], follow):
                                    f2 = F.funcs.get(m2)
                                    if f2 is not None and f2.body is not None:
                                        late |= (fields_written(f2) & others)
                # members that are themselves copies taken at the same place are coherent with it
                late = {y for y in late if not any(member_root(tgt) is not None and member_root(tgt)["q"] == y for f, w in sites for w2, tgt in lvalue_writes(f))}
                ok = not late
                why = ("written from `%s`, a copy of `%s` taken on the update path; " % (mw.split("::")[-1], mr.split("::")[-1])) + (
                    "nothing else the writer serialises is updated after the copy" if ok else
                    "but %s, serialised live, are updated AFTER the copy in the same step" % sorted(y.split("::")[-1] for y in late))
            rep.add("C03-R12", "%s|%s" % (cq, k), gw.loc(cw), "%s: key %s is %s" % (cq, k, why), ok,
                    detail="a run resumed from this state skips the update of the repeated step: what that update had added to the "
                           "copied members (a kernel, its weight) is lost while the counters already include it", func=gw.q)
    if n < 3:
        raise AnalysisBroken("C03-R12: only %d keys that are written from and read into members through keyed helpers (the OPES state expected)" % n)


def written_steps(F, rep, rid="C03-R13"):
    rep.rule(rid, "a step number that is written out is the absolute one: every stream insertion (`os << ...`) in the library "
                  "whose operand calls a step function calls step_absolute() -- hills, kernels and state blocks are stamped on "
                  "one time axis, and readers compare those stamps with each other (`h_it <= state_file_step` decides whether "
                  "a peer's hill is already in the grids it published); a run-relative stamp restarts from zero in every "
                  "resumed run")
    n = 0
    for f in sorted(F.funcs.values(), key=lambda g: g.q):
        if "/src/" not in f.file or f.body is None:
            continue
        seen = set()
        for c in f.walk():
            if c["k"] != "CXXOperatorCallExpr" or c.get("op") != "<<" or len(X.call_args(c)) != 2:
                continue
            rhs = X.call_args(c)[1]
            fns = {fn for fn in ("step_absolute", "step_relative") for y in f.walk(rhs)
                   if y["k"] == "CallExpr" and (y.get("cq") or "") == "colvarmodule::%s" % fn}
            for fn in sorted(fns):
                if (fn,) in seen:
                    continue
                seen.add((fn,))
                n += 1
                rep.add(rid, "%s|%s" % (f.q, fn), f.loc(c), "%s writes %s() to a stream" % (f.q, fn), fn == "step_absolute",
                        detail="after a restart the stamp is smaller than the stamps written before it: data stamped earlier looks newer "
                               "than the state that already contains it, and is counted again", func=f.q)
    if n < 3:
        raise AnalysisBroken("%s: only %d stream insertions of a step number found" % (rid, n))


def run(F, rep, tier):
    from .rules_c15 import count_lookup
    count_lookup(F, rep, "C03-R14")
    written_steps(F, rep)
    r12(F, rep)
    r1(F, rep)
    r2(F, rep)
    r3(F, rep)
    r4(F, rep)
    r5(F, rep)
    r6(F, rep)
    r7(F, rep)
    r8(F, rep)
    r9(F, rep)
    r10(F, rep)
    r11(F, rep)
