"""C12  Results do not depend on threading or on the order of evaluation.

R1  static lockset over the parallel roots: every write to shared storage reachable from a work item
    is inside smp_lock()/smp_unlock() or an OpenMP critical/atomic, or is listed with a reason
R2  the parallel and serial schedules run the same per-variable stages
R3  biases that talk to peers never enter the parallel loop
R4  no reachable floating-point reduction (OPES OpenMP regions are dead: one thread)
R5  smp_loop combines return codes atomically
R6  work items address components in the index space of their consumer
R7  slice discipline: every stage a work item runs on its (first, count) slice loops over exactly that slice
"""
from . import expr as X
from . import cond as C
from . import callgraph
from .facts import AnalysisBroken
from .common import load_table
from .rules_c10 import lvalue_writes

SHARED_ALWAYS = ("colvarmodule", "colvarproxy", "colvarproxy_system", "colvarproxy_atoms", "colvarproxy_atom_groups",
                 "colvarproxy_volmaps", "colvarproxy_smp", "colvarproxy_replicas", "colvarproxy_script",
                 "colvarproxy_io", "colvarproxy_tcl", "colvarproxy_stub", "colvarscript", "colvarparse", "colvarparams",
                 "colvardeps")


def field_class(q):
    return q.rsplit("::", 1)[0] if "::" in q else ""


def lvalue_root(f, tgt):
    """(root node, outermost field MemberExpr or None) of an lvalue expression."""
    n = X.strip(tgt)
    field = None
    depth = 0
    while depth < 20:
        depth += 1
        k = n["k"]
        if k == "MemberExpr" and X.kids(n):
            if n.get("dk") == "Field":
                field = n
            n = X.strip(X.kids(n)[0])
        elif k == "ArraySubscriptExpr":
            n = X.strip(X.kids(n)[0])
        elif k == "CXXOperatorCallExpr" and n.get("op") in ("[]", "*", "->", "()"):
            n = X.strip(X.call_args(n)[0])
        elif k == "UnaryOperator" and n["op"] in ("*", "&"):
            n = X.strip(X.kids(n)[0])
        elif k == "CXXMemberCallExpr" and X.callee_name(n) in ("get", "operator->", "front", "back", "at", "begin", "data"):
            r = X.receiver(n)
            if r is None:
                break
            n = X.strip(r)
        elif k in ("ParenExpr", "CXXBindTemporaryExpr", "MaterializeTemporaryExpr"):
            n = X.strip(X.kids(n)[0])
        else:
            break
    return n, field


def effect_writes(F, f):
    """lvalue_writes minus (a) address-of (the real write happens where the pointer is used) and
    (b) non-const member calls whose callee body is analysed itself."""
    for w, tgt in lvalue_writes(f):
        if w["k"] == "UnaryOperator" and w["op"] == "&":
            continue
        if w["k"] == "CXXMemberCallExpr" and w.get("callee") in F.funcs:
            continue
        if w["k"] in ("CallExpr", "CXXMemberCallExpr", "CXXConstructExpr", "CXXTemporaryObjectExpr") and \
                w.get("refargs") and w.get("callee") in F.funcs and tgt is not (X.receiver(w) if w["k"] == "CXXMemberCallExpr" else None):
            # by-reference argument to an analysed function: the callee's parameter writes are classified there
            pass
        yield w, tgt


class Effects:
    def __init__(self, F):
        self.F = F
        self.cg = callgraph.get(F)
        self._local_src = {}
        # accessors: functions that return the address of / a reference to one of their object's fields
        self.accessor = {}
        for g in F.funcs.values():
            rets = [n for n in g.walk() if n["k"] == "ReturnStmt" and X.kids(n)]
            if len(rets) != 1:
                continue
            root, field = lvalue_root(g, X.kids(rets[0])[0])
            if field is not None and root["k"] == "CXXThisExpr" and ("*" in g.typestr(g.ret) or "&" in g.typestr(g.ret)):
                self.accessor[g.q] = field["q"]

    def local_source(self, f, decl):
        """Initialiser of a pointer/reference local (to follow `colvarmodule *cv = cvm::main()`)."""
        key = (f.m, decl)
        if key in self._local_src:
            return self._local_src[key]
        src = None
        for n in f.walk():
            if n["k"] == "VarDecl" and n.get("d") == decl and X.kids(n):
                t = f.typestr(n.get("t"))
                if "*" in t or "&" in t or n.get("ref"):
                    src = X.kids(n)[0]
        self._local_src[key] = src
        return src

    def storage(self, f, tgt, depth=0):
        """Classify the storage an lvalue may reach."""
        root, field = lvalue_root(f, tgt)
        k = root["k"]
        fq = field["q"] if field is not None else None
        if k == "DeclRefExpr":
            st = root.get("st")
            if st in ("global", "static_member", "static_local"):
                return ("static", root.get("q") or root["n"], fq)
            if st in ("local", "param"):
                src = self.local_source(f, root.get("d")) if st == "local" else None
                if src is not None and depth < 3:
                    inner = self.storage(f, src, depth + 1)
                    if inner[0] in ("static", "via", "this") and fq:
                        return (inner[0] if inner[0] != "this" else "this", inner[1], fq)
                    if inner[0] != "local":
                        return (inner[0], inner[1], fq or inner[2])
                if st == "param" and fq:
                    return ("param", root["n"], fq)
                return ("local", root["n"], fq)
        if k == "CXXThisExpr":
            return ("this", f.cls or "", fq)
        if k in ("CallExpr", "CXXMemberCallExpr"):
            cq = root.get("cq") or "?"
            if fq is None and cq in self.accessor:
                fq = self.accessor[cq]
            if k == "CXXMemberCallExpr" and depth < 3:
                r = X.receiver(root)
                if r is not None:
                    if X.strip(r)["k"] == "CXXThisExpr":
                        return ("this", f.cls or "", fq)
                    inner = self.storage(f, r, depth + 1)
                    if inner[0] in ("this", "local", "param"):
                        # an accessor called on an object we already classify: same object family
                        return (inner[0], inner[1], inner[2] or fq)
            return ("via", cq, fq)
        if k == "MemberExpr" and root.get("dk") == "Var":   # static member through object
            return ("static", root.get("q"), fq)
        return ("other", k, fq)


def in_lock(f, w):
    """Is node w inside smp_lock()...smp_unlock() (in this function)?"""
    locks = [c for c in X.calls(f) if X.callee_name(c) in ("smp_lock",)]
    unlocks = [c for c in X.calls(f) if X.callee_name(c) in ("smp_unlock",)]
    for l in locks:
        if f.cfg.dominates(l, w):
            if not any(f.cfg.dominates(l, u) and f.cfg.dominates(u, w) for u in unlocks):
                return True
    for a in f.ancestors(w):
        if a["k"] in ("OMPCriticalDirective", "OMPAtomicDirective"):
            return True
    # main-thread-only code: guarded by io_available() (the proxy refuses I/O from other threads)
    facts, gs = C.guard_facts(f, w)
    if any(t[0] == "true" and "io_available()" in t[1] for t in facts):
        return True
    return False


# fields of an item-owned object that point to SHARED objects
SHARED_FIELDS = {"colvarbias::colvars"}
# fields of a shared object whose elements ARE the work items of a root
ITEM_FIELDS = {"A": {"colvar::cvcs"}, "B": set()}


def r1(F, rep):
    rep.rule("C12-R1", "static lockset with object contexts: starting from each parallel work item (a component "
                       "evaluation; a bias update) the call graph is followed while tracking whether `this` is the "
                       "item (or something it owns) or a shared object (module, proxy, a variable, for biases also "
                       "components and atom groups); every write to static storage or to a field of a shared object "
                       "must be inside smp_lock()/smp_unlock(), an OpenMP critical/atomic or main-thread-only code, "
                       "or be listed in tables/c12_exempt.json with a reason")
    E = Effects(F)
    cg = E.cg
    exempt = {(e["function"], e["storage"]): e["reason"] for e in load_table("c12_exempt.json")["R1"]}
    rootA = [(f.m, "shared") for f in F.need("colvarmodule::calc_component_smp")]
    rootB = set()
    for u in F.need("colvarbias::update"):
        rootB.add(u.m)
        rootB |= F.overriders(u.m)
    rootB = [(m, "item") for m in sorted(rootB)]
    results = {}
    stats = {}

    def replica_only(caller, call):
        facts, gs = C.guard_facts(caller, call, X.const_locals(caller))
        for t in facts:
            # comm != single_replica (enumerator 0)  /  comm == multiple_replicas
            if t[0] == "cmp" and t[1] == "!=" and t[2].endswith(".comm") and t[3] == "0":
                return True
            if t[0] == "cmp" and t[1] == "==" and t[2].endswith(".comm") and t[3] not in ("0",):
                return True
            if t[0] == "true" and t[1] in ("this.shared_on",):
                return True
        return False

    def recv_ctx(kind, f, ctx, call):
        """Context of the callee's `this`."""
        if call["k"] == "LambdaExpr":
            return ctx
        if call["k"] in ("CXXConstructExpr", "CXXTemporaryObjectExpr"):
            return "item"          # a freshly constructed object is private to the constructing thread
        if call["k"] != "CXXMemberCallExpr":
            return "shared" if False else ctx if call.get("cstatic") else ctx
        r = X.receiver(call)
        if r is None or X.strip(r)["k"] == "CXXThisExpr":
            return ctx
        st = E.storage(f, r)
        if st[0] == "static":
            return "shared"
        if st[0] == "via":
            fq = st[2]
            if fq in ITEM_FIELDS[kind]:
                return "item"
            return "shared"
        if st[0] == "this":
            fq = st[2]
            if fq in ITEM_FIELDS[kind]:
                return "item"
            if fq in SHARED_FIELDS:
                return "shared"
            return ctx
        if st[0] in ("local", "param", "other"):
            # locals built in this function are private; parameters keep the caller's context
            if st[0] == "local":
                return "item"
            return ctx
        return ctx

    for kind, roots in (("A", rootA), ("B", rootB)):
        seen = set()
        stack = [(m, c, None) for m, c in roots]
        parent = {}
        nwrites = 0

        def path_to(m, ctx):
            out = []
            cur = (m, ctx)
            while cur is not None and len(out) < 12:
                g = F.funcs.get(cur[0])
                out.append("%s[%s]" % (g.q if g else cur[0], cur[1]))
                cur = parent.get(cur)
            return " <- ".join(out)

        while stack:
            m, ctx, par = stack.pop(0)
            if (m, ctx) in seen:
                continue
            seen.add((m, ctx))
            parent[(m, ctx)] = par
            f = F.funcs.get(m)
            if f is None or not f.cfg.ok:
                continue
            # effects
            for w, tgt in effect_writes(F, f):
                st = E.storage(f, tgt)
                nwrites += 1
                label = None
                if st[0] == "static":
                    label = "static %s" % st[1]
                elif st[0] == "this" and ctx == "shared" and st[2] and not (f.ctor or f.dtor):
                    if st[2] in ITEM_FIELDS[kind]:
                        continue
                    label = st[2]
                elif st[0] == "this" and ctx == "item" and st[2] in SHARED_FIELDS:
                    label = st[2]
                elif st[0] == "via" and st[2]:
                    if st[2] in ITEM_FIELDS[kind]:
                        continue
                    label = st[2]
                if label is None:
                    continue
                locked = in_lock(f, w)
                key = "%s|%s|%s" % (kind, f.q, label)
                ok = locked
                why = "synchronised (lock / critical / main thread only)" if locked else "NOT synchronised"
                for ek in ((f.q, label), ("*", label)):
                    if not ok and ek in exempt:
                        ok = True
                        why = "exempt: " + exempt[ek]
                prev = results.get(key)
                if prev is not None and (not prev[0] or ok):
                    continue
                results[key] = (ok, f.loc(w), "root %s: write to shared `%s` in %s is %s" % (kind, label, f.q, why),
                                "two concurrently evaluated work items could write it at the same time; call path: "
                                + path_to(m, ctx), f.q)
            # successors
            for tgt, c in cg.callees(m):
                if kind == "B" and c["k"] != "LambdaExpr" and replica_only(f, c):
                    continue
                stack.append((tgt, recv_ctx(kind, f, ctx, c), (m, ctx)))
        stats["reach_" + kind] = len({m for m, _ in seen})
        stats["writes_" + kind] = nwrites
    for k, (ok, loc, what, detail, fq) in results.items():
        rep.add("C12-R1", k, loc, what, ok, detail=detail, func=fq)
    for k, v in stats.items():
        rep.count(k, v)
    if stats.get("reach_A", 0) < 200 or stats.get("reach_B", 0) < 300:
        raise AnalysisBroken("parallel roots reach too few functions (%s): call graph regression" % stats)


def r2(F, rep):
    rep.rule("C12-R2", "the parallel and the serial schedule run the same per-variable stages: colvar::calc() and the SMP "
                       "branch of calc_colvars() (through calc_component_smp) call update_cvc_flags, calc_cvcs and "
                       "collect_cvc_data, and data collection starts only after the parallel loop has returned")
    cg = callgraph.get(F)
    serial = F.one("colvar::calc")
    stages = ("update_cvc_flags", "calc_cvcs", "collect_cvc_data")
    ser = [X.callee_name(c) for c in X.calls(serial) if X.callee_name(c) in stages and c.get("cq", "").startswith("colvar::")]
    cc = F.one("colvarmodule::calc_colvars")
    comp = F.one("colvarmodule::calc_component_smp")
    par = []
    loop = [c for c in X.calls(cc) if X.callee_name(c) == "smp_loop"]
    if not loop:
        raise AnalysisBroken("calc_colvars: smp_loop call not found")
    facts, gs = C.guard_facts(cc, loop[0])
    smp_guard = [(c, p) for c, p in gs]
    for c in X.calls(cc):
        if X.callee_name(c) in stages and c.get("cq", "").startswith("colvar::"):
            # only those in the SMP branch (same guards as the smp_loop call)
            g2 = set(cc.cfg.real_guards(c))
            if set(cc.cfg.real_guards(loop[0])) <= g2:
                par.append((X.callee_name(c), c))
    par_names = [n for n, _ in par] + [X.callee_name(c) for c in X.calls(comp) if X.callee_name(c) in stages]
    ok = sorted(set(ser)) == sorted(set(par_names)) == sorted(stages)
    rep.add("C12-R2", "stages", cc.loc(), "serial stages %s ; parallel stages %s" % (sorted(set(ser)), sorted(set(par_names))), ok,
            detail="the code itself says: if anything is added here, it should be added also in the SMP block", func=cc.q)
    # order: update_cvc_flags before the loop, collect after
    for n, c in par:
        if n == "update_cvc_flags":
            okk = cc.cfg.can_reach(c, loop[0]) and not cc.cfg.can_reach(loop[0], c)
            rep.add("C12-R2", "order|update_cvc_flags", cc.loc(c), "component flags are updated before the parallel loop", okk, func=cc.q)
        if n == "collect_cvc_data":
            okk = cc.cfg.dominates(loop[0], c) or cc.cfg.dominates(loop[0], X.kids(
                [a for a in cc.ancestors(c) if a["k"] == "ForStmt"][0])[1])
            rep.add("C12-R2", "order|collect_cvc_data", cc.loc(c), "data collection happens only after smp_loop() returned", okk, func=cc.q)
    # order inside the serial version
    pos = {X.callee_name(c): c for c in X.calls(serial) if X.callee_name(c) in stages}
    okk = len(pos) == 3 and serial.cfg.can_reach(pos["update_cvc_flags"], pos["calc_cvcs"]) and serial.cfg.can_reach(
        pos["calc_cvcs"], pos["collect_cvc_data"])
    rep.add("C12-R2", "order|serial", serial.loc(), "colvar::calc() runs flags, components, collection in this order", okk, func=serial.q)


def r3(F, rep):
    rep.rule("C12-R3", "biases that talk to peers never enter the parallel loop: calc_biases() marks the step as "
                       "main-thread-only whenever an active bias reports replica_share_freq() > 0 (no further condition), "
                       "the parallel loops are taken only when that mark is off, and every replica_share() call in an "
                       "update() is guarded by the member its class returns from replica_share_freq()")
    f = F.one("colvarmodule::calc_biases")
    res = X.const_locals(f)
    marks = [w for w, t in lvalue_writes(f) if X.key(t, f).startswith("biases_need_main_thread") and w["k"] == "BinaryOperator"
             and C._lit(X.kids(w)[1]) == 1]
    if not marks:
        rep.add("C12-R3", "mark|unconditional", f.loc(), "calc_biases() never marks a step as main-thread-only", False,
                detail="biases that exchange data with peers would run inside the parallel loop", func=f.q)
    for w in marks:
        gs = f.cfg.real_guards(w)
        descr = []
        only_freq = True
        has_freq = False
        for cid, pol in gs:
            cn = f.nodes[cid]
            txt = X.key(cn, f, res)
            descr.append("%s is %s" % (X.re_strip(txt), pol))
            fs = C.facts(f, cn, pol, res)
            # the comparison itself, looked up through a constant boolean local and a cast to bool
            cmpn = X.strip(cn)
            for _ in range(4):
                if cmpn["k"] == "DeclRefExpr" and cmpn.get("d") in res:
                    cmpn = X.strip(res[cmpn["d"]])
                elif cmpn["k"] in ("CXXStaticCastExpr", "CXXFunctionalCastExpr", "CStyleCastExpr") and X.kids(cmpn):
                    cmpn = X.strip(X.kids(cmpn)[-1])
                else:
                    break
            if any(t[0] == "pos" and "replica_share_freq()" in t[1] for t in fs) and pol and \
                    cmpn["k"] == "BinaryOperator" and cmpn["op"] in (">", "!="):
                has_freq = True
            elif cf_is_loop(f, cid):
                continue
            else:
                only_freq = False
        rep.add("C12-R3", "mark|unconditional", f.loc(w),
                "the main-thread mark is set %s" % ("exactly when replica_share_freq() > 0" if (has_freq and only_freq)
                                                    else "under extra conditions: " + "; ".join(descr)),
                has_freq and only_freq,
                detail="a peer-sharing bias also needs the main thread on steps where it does not exchange (file output, MPI)",
                func=f.q)
    for c in X.calls(f):
        if X.callee_name(c) in ("smp_biases_loop", "smp_biases_script_loop"):
            facts, gs = C.guard_facts(f, c, res)
            ok = any(t[0] in ("false", "z") and t[1].startswith("biases_need_main_thread") for t in facts)
            rep.add("C12-R3", "parallel-branch|%s" % X.callee_name(c), f.loc(c), "%s() is reached only when no active bias needs the main thread" % X.callee_name(c), ok, func=f.q)
    # per class
    for g in F.funcs.values():
        if g.name == "replica_share_freq" and g.cls and g.cls != "colvarbias":
            rets = [n for n in g.walk() if n["k"] == "ReturnStmt" and X.kids(n)]
            mem = [x["n"] for r in rets for x in g.walk(r) if x["k"] == "MemberExpr" and x.get("dk") == "Field"]
            if not mem:
                rep.add("C12-R3", "freq-member|%s" % g.cls, g.loc(), "%s::replica_share_freq() does not return a member" % g.cls, False, func=g.q)
                continue
            # the accessor is a plain read of the configured frequency: calc_biases() takes "> 0" to mean "this bias does I/O or
            # talks to peers on the main thread at every step", which does not depend on how many peers are known right now
            pure = all(X.strip(X.kids(r)[0])["k"] == "MemberExpr" for r in rets)
            rep.add("C12-R3", "freq-accessor|%s" % g.cls, g.loc(), "%s::replica_share_freq() returns %s" % (
                g.cls, "the configured member as it is" if pure else "a value computed from run-time state (`%s`)" % X.text(X.kids(rets[0])[0], g)[:60]), pure,
                detail="a sharing bias that reports 0 is scheduled on a worker thread, where its file output is refused", func=g.q)
            # the member has a value whatever the configuration: set by every constructor (initialiser list or default
            # member initialiser) or assigned in init() outside any configuration-dependent branch
            for m in sorted(set(mem)):
                ctors = [k for k in F.funcs.values() if k.cls == g.cls and k.ctor and "/src/" in k.file]
                in_ctor = bool(ctors) and all(any(it.get("member") == m for it in k.inits) or
                                              any(X.key(t, k) == "this." + m for w, t in lvalue_writes(k)) for k in ctors)
                in_init = False
                for u in F.funcs.values():
                    if u.cls == g.cls and u.name == "init":
                        for w, t in lvalue_writes(u):
                            if X.key(t, u) == "this." + m and not [1 for cid, pol in u.cfg.real_guards(w)
                                                                   if not _error_exit_guard(u, cid, pol)]:
                                in_init = True
                rep.add("C12-R3", "freq-member-initialised|%s" % g.cls, g.loc(), "%s::replica_share_freq() returns `%s`, which %s" % (
                    g.cls, m, "every constructor initialises" if in_ctor else "init() assigns unconditionally" if in_init else
                    "is assigned only under a configuration-dependent condition: indeterminate otherwise"), in_ctor or in_init,
                    detail="calc_biases() compares it with 0 for every active bias to choose between the threaded and the serial schedule", func=g.q)
            ups = [u for u in F.funcs.values() if u.cls == g.cls and u.name == "update"]
            for u in ups:
                for c in X.calls(u):
                    if X.callee_name(c) == "replica_share":
                        gs = u.cfg.guards(c)
                        ok = any(X.mentions(u.nodes[cid], lambda x: x["k"] == "MemberExpr" and x.get("n") in mem) for cid, pol in gs)
                        rep.add("C12-R3", "share-guard|%s" % g.cls, u.loc(c), "%s::update() calls replica_share() under a condition on %s" % (
                            g.cls, "/".join(sorted(set(mem)))), ok,
                            detail="otherwise the module would not know that this bias needs the main thread", func=u.q)


def _error_exit_guard(f, cid, pol):
    """the guard only excludes a branch that reports an error and returns."""
    from .rules_c10 import is_error_call
    blk = [b for b in f.cfg.blocks.values() if b.get("cond") == cid]
    if not blk:
        return False
    other = blk[0]["s"][1 if pol else 0]
    if other is None:
        return True
    seen, stack = set(), [other]
    has_err = False
    while stack:
        b = stack.pop()
        if b in seen or b is None:
            continue
        seen.add(b)
        if len(seen) > 6:
            return False
        for nid in f.cfg.blocks[b]["e"]:
            n = f.nodes.get(nid)
            if n is not None and is_error_call(n):
                has_err = True
        for s2 in f.cfg.succ.get(b, ()):
            if s2 is not None and s2 != f.cfg.exit:
                stack.append(s2)
    return has_err


def cf_is_loop(f, cid):
    return f.cfg.cond_kind.get(cid) in ("ForStmt", "WhileStmt", "DoStmt", "CXXForRangeStmt")


def r4(F, rep):
    rep.rule("C12-R4", "no reachable floating-point reduction: every OpenMP parallel region outside colvarproxy.cpp sits "
                       "in the else-branch of a `m_num_threads == 1` test, and every assignment to m_num_threads in the "
                       "active configuration stores the constant 1")
    regions = []
    for f in F.funcs.values():
        if "/src/" not in f.file or f.file.endswith("colvarproxy.cpp"):
            continue
        for n in f.walk():
            if n["k"] == "OMPParallelDirective" or n["k"] == "OMPParallelForDirective":
                regions.append((f, n))
    for f, n in regions:
        # structural guards (the parallel body is a captured region; use the directive's position)
        ok = False
        cur = n
        for a in f.ancestors(n):
            if a["k"] == "IfStmt":
                cs = a.get("c", [])
                if len(cs) == 4:
                    cs = cs[1:]
                if len(cs) >= 3 and cs[2] is cur:
                    # in the else branch: the condition must contain m_num_threads == 1 as a top-level disjunct
                    cond = X.strip(cs[0])
                    disj = [cond]
                    while disj and any(X.strip(d)["k"] == "BinaryOperator" and X.strip(d)["op"] == "||" for d in disj):
                        nd = []
                        for d in disj:
                            d = X.strip(d)
                            if d["k"] == "BinaryOperator" and d["op"] == "||":
                                nd += X.kids(d)
                            else:
                                nd.append(d)
                        disj = nd
                    for d in disj:
                        d = X.strip(d)
                        if d["k"] == "BinaryOperator" and d["op"] == "==" and "m_num_threads" in X.key(d, f) and C._lit(X.kids(d)[1]) == 1:
                            ok = True
            cur = a
        rep.add("C12-R4", "region|%s|%d" % (f.q, sum(1 for o in rep.obls if o.rule == "C12-R4")), f.loc(n),
                "OpenMP parallel region in %s %s" % (f.q, "is in the else-branch of m_num_threads == 1" if ok else
                                                    "is NOT guarded by m_num_threads == 1"), ok,
                detail="reductions over threads make results depend on the thread count", func=f.q)
    writes = []
    for f in F.funcs.values():
        for w, t in lvalue_writes(f):
            if X.key(t, f) == "this.m_num_threads" and w["k"] == "BinaryOperator":
                writes.append((f, w))
        for it in f.inits:
            if it.get("member") == "m_num_threads":
                writes.append((f, it["init"]))
    if not writes:
        raise AnalysisBroken("no assignment to m_num_threads found")
    for f, w in writes:
        v = C._lit(X.kids(w)[1]) if w["k"] == "BinaryOperator" else C._lit(w)
        rep.add("C12-R4", "value|%s|%s" % (f.q, w.get("l")), f.loc(w), "m_num_threads is set to %s" % (
            "the constant 1" if v == 1 else "a non-constant / other value: " + X.text(w, f)[:60]), v == 1, func=f.q)


def r5(F, rep):
    rep.rule("C12-R5", "smp_loop and the bias loops combine per-item results safely: the return code is or-ed inside an "
                       "OpenMP atomic, and the loops write nothing else that is shared")
    f = F.one("colvarproxy_smp::smp_loop")
    ats = [n for n in f.walk() if n["k"] == "OMPAtomicDirective"]
    ok = False
    for a in ats:
        if X.mentions(a, lambda x: x["k"] == "CompoundAssignOperator" and x["op"] == "|="):
            ok = True
    rep.add("C12-R5", "smp_loop|atomic", f.loc(), "error codes of work items are combined under `omp atomic`", ok, func=f.q)
    for q in ("colvarproxy_smp::smp_biases_loop", "colvarproxy_smp::smp_biases_script_loop"):
        g = F.one(q)
        bad = [w for w, t in lvalue_writes(g) if w["k"] in ("BinaryOperator", "CompoundAssignOperator")
               and X.strip(t)["k"] == "DeclRefExpr" and X.strip(t).get("st") == "local"
               and any(a["k"].startswith("OMP") for a in g.ancestors(w))
               and not any(a["k"] == "VarDecl" for a in g.ancestors(w))]
        # locals declared outside the parallel region and assigned inside it are shared
        shared_bad = []
        for w in bad:
            t = X.strip(X.kids(w)[0])
            decl_in_region = any(x["k"] == "VarDecl" and x.get("d") == t.get("d") and any(
                a["k"].startswith("OMP") for a in g.ancestors(x)) for x in g.walk())
            if not decl_in_region:
                shared_bad.append(w)
        rep.add("C12-R5", "%s|no-shared-local-writes" % q, g.loc(), "%s writes no variable declared outside its parallel region" % q,
                not shared_bad, func=q)


# the property is about the threaded build: a configuration compiled without OpenMP has no parallel schedule to analyse
THOROUGH_CONFIGS = ("default", "debug")


def upper_bound(F, f, e, depth=0):
    """Canonical key of the bound B in the loop condition `v < B` that limits expression e (a loop variable, or a call
    whose every return value is such a variable or B itself); None if unknown."""
    e = X.strip(e)
    while e["k"] in ("CXXStaticCastExpr", "CStyleCastExpr", "CXXFunctionalCastExpr", "ImplicitCastExpr") and X.kids(e):
        e = X.strip(X.kids(e)[-1])
    if e["k"] == "DeclRefExpr" and e.get("st") in ("local",):
        for a in f.ancestors(e):
            if a["k"] == "ForStmt" and a["c"][1] is not None:
                c = X.strip(a["c"][1])
                # first conjunct `v < B`
                while c["k"] == "BinaryOperator" and c["op"] == "&&":
                    c = X.strip(X.kids(c)[0])
                if c["k"] == "BinaryOperator" and c["op"] == "<":
                    l, r = X.kids(c)
                    if X.strip(l)["k"] == "DeclRefExpr" and X.strip(l).get("d") == e.get("d"):
                        return X.re_strip(X.key(r, f, X.const_locals(f)))
        return None
    if e["k"] in ("CXXMemberCallExpr", "CallExpr") and depth < 2:
        g = F.funcs.get(e.get("callee"))
        if g is None:
            return None
        bs = set()
        for r in g.walk():
            if r["k"] == "ReturnStmt" and X.kids(r):
                v = X.kids(r)[0]
                b = upper_bound(F, g, v, depth + 1)
                if b is None:
                    b = X.re_strip(X.key(v, g, X.const_locals(g)))   # returning the bound itself
                bs.add(b)
        return bs.pop() if len(bs) == 1 else None
    return None


def r6(F, rep):
    rep.rule("C12-R6", "parallel work items address components in the index space their consumer expects: the value pushed onto "
                       "variables_active_smp_items (handed to colvar::calc_cvcs(first_cvc, 1) by calc_component_smp) is bounded by "
                       "cvcs.size() -- a position in the array of ALL components -- like the loop in calc_cvc_values() that starts "
                       "from it, not by the number of active components")
    f = F.one("colvarmodule::calc_colvars")
    pushes = [c for c in X.calls(f) if c["k"] == "CXXMemberCallExpr" and X.callee_name(c) == "push_back" and X.receiver(c) is not None and
              "variables_active_smp_items" in X.key(X.receiver(c), f)]
    if not pushes:
        raise AnalysisBroken("calc_colvars: construction of the SMP work items not found")
    cons = F.one("colvar::calc_cvc_values")
    cb = None
    for l in cons.walk():
        if l["k"] == "ForStmt" and l["c"][0] is not None and "first_cvc" in X.key(l["c"][0], cons):
            c = X.strip(l["c"][1])
            while c["k"] == "BinaryOperator" and c["op"] == "&&":
                c = X.strip(X.kids(c)[0])
            if c["k"] == "BinaryOperator" and c["op"] == "<":
                cb = X.re_strip(X.key(X.kids(c)[1], cons))
    if cb is None:
        raise AnalysisBroken("calc_cvc_values: loop starting from first_cvc not found")
    for p in pushes:
        b = upper_bound(F, f, X.call_args(p)[0])
        ok = b is not None and b.split(".")[-1] == cb.split(".")[-1]
        rep.add("C12-R6", "items|index-space", f.loc(p), "work item value `%s` is bounded by `%s`; the consumer iterates up to `%s`" % (
            X.text(X.call_args(p)[0], f)[:60], b, cb), ok,
            detail="with a disabled component in front, two items compute the same component and one is never computed: "
                   "the threaded value differs from the serial one", func=f.q)


def r7(F, rep):
    rep.rule("C12-R7", "slice discipline: the function a parallel work item calls with (first component, count) hands that pair "
                       "unchanged to each stage; every loop of a stage that subscripts a member container with its loop variable "
                       "starts from the `first` parameter and is limited by a count derived from the `count` parameter -- a stage "
                       "that starts from 0 makes every item recompute the first component (a data race) and never its own")
    worker = F.one("colvarmodule::calc_component_smp")
    disp = []
    for c in X.calls(worker):
        g = F.funcs.get(c.get("callee"))
        if g is not None and len(g.params) == 2 and len(X.call_args(c)) == 2 and g.cls == "colvar":
            disp.append(g)
    if len(disp) != 1:
        raise AnalysisBroken("C12-R7: dispatcher called by calc_component_smp with (item, count) not found")
    d = disp[0]
    p0, p1 = d.params[0]["d"], d.params[1]["d"]
    stages = []
    for c in X.calls(d):
        a = X.call_args(c)
        g = F.funcs.get(c.get("callee"))
        if g is None or g.cls != d.cls or len(a) != 2 or len(g.params) != 2:
            continue
        a0, a1 = X.strip(a[0]), X.strip(a[1])
        fwd = a0["k"] == "DeclRefExpr" and a0.get("d") == p0 and a1["k"] == "DeclRefExpr" and a1.get("d") == p1
        rep.add("C12-R7", "%s|forward|%s" % (d.q, g.q), d.loc(c), "%s passes its (first, count) pair %s to %s" % (
            d.q, "unchanged" if fwd else "CHANGED (`%s`, `%s`)" % (X.text(a[0], d)[:30], X.text(a[1], d)[:30]), g.q), fwd, func=d.q)
        if g.q not in [x.q for x in stages]:
            stages.append(g)
    nloops = 0
    for g in stages:
        q0, q1 = g.params[0]["d"], g.params[1]["d"]
        # locals derived from the count parameter
        derived = {q1}
        for v in g.walk():
            if v["k"] == "VarDecl" and X.kids(v) and X.mentions(X.kids(v)[0], lambda n: n["k"] == "DeclRefExpr" and n.get("d") in derived):
                derived.add(v.get("d"))
        for l in g.walk():
            if l["k"] != "ForStmt":
                continue
            init, cond, body = l["c"][0], l["c"][1], l["c"][-1]
            if init is None or cond is None or body is None:
                continue
            # loop variables: assigned / declared in the init
            lv = set()
            for n in _walk_nodes(init):
                if n["k"] == "VarDecl":
                    lv.add(n.get("d"))
                if n["k"] == "BinaryOperator" and n.get("op") == "=":
                    t = X.strip(X.kids(n)[0])
                    if t["k"] == "DeclRefExpr":
                        lv.add(t.get("d"))
            subs = [n for n in _walk_nodes(body) if n["k"] == "CXXOperatorCallExpr" and n.get("op") == "[]" and
                    X.key(X.call_args(n)[0], g).startswith("this.") and
                    X.strip(X.call_args(n)[1])["k"] == "DeclRefExpr" and X.strip(X.call_args(n)[1]).get("d") in lv]
            if not subs:
                continue
            nloops += 1
            idx = X.strip(X.call_args(subs[0])[1]).get("d")
            from_first = False
            for n in _walk_nodes(init):
                rhs = None
                if n["k"] == "VarDecl" and n.get("d") == idx and X.kids(n):
                    rhs = X.kids(n)[0]
                if n["k"] == "BinaryOperator" and n.get("op") == "=" and X.strip(X.kids(n)[0]).get("d") == idx:
                    rhs = X.kids(n)[1]
                if rhs is not None and X.mentions(rhs, lambda m: m["k"] == "DeclRefExpr" and m.get("d") == q0):
                    from_first = True
            limited = X.mentions(cond, lambda m: m["k"] == "DeclRefExpr" and m.get("d") in derived)
            ok = from_first and limited
            rep.add("C12-R7", "%s|loop over %s" % (g.q, X.re_strip(X.key(X.call_args(subs[0])[0], g))), g.loc(l),
                    "%s: loop over `%s` starts from its first parameter: %s; limited by a count derived from its second: %s" % (
                        g.q, X.re_strip(X.key(X.call_args(subs[0])[0], g)), from_first, limited), ok,
                    detail="called as (item, 1) from concurrently running work items of one variable", func=g.q)
    # sibling agreement: the stages walk their slice with the same loop test (counting enabled components), so that the
    # serial call (first = 0, count = all active) and the per-item calls cover the same components in every stage
    import re as _re

    def nkey(g, n):
        k = X.key(n, g)
        m = {}

        def sub(mo):
            w = mo.group(0)
            if w not in m:
                m[w] = "v%d" % len(m)
            return m[w]
        return _re.sub(r"\b[A-Za-z_][A-Za-z_0-9]*#\d+", sub, k)
    conds = {}
    for g in stages:
        for l in g.walk():
            if l["k"] == "ForStmt" and l["c"][1] is not None and l["c"][-1] is not None and \
                    any(n["k"] == "CXXOperatorCallExpr" and n.get("op") == "[]" and X.key(X.call_args(n)[0], g).startswith("this.cvcs") for n in _walk_nodes(l["c"][-1])):
                conds.setdefault(nkey(g, l["c"][1]), []).append((g, l))
    if conds:
        ref = max(conds, key=lambda k: len(conds[k]))
        for k, lst in conds.items():
            for g, l in lst:
                rep.add("C12-R7", "%s|loop-test" % g.q, g.loc(l), "%s walks its slice of the components with the test `%s`%s" % (
                    g.q, X.re_strip(X.key(l["c"][1], g))[:90], "" if k == ref else " -- the other stages use `%s`" % ref[:90]), k == ref,
                    detail="the stages would cover different components for the same (first, count): the serial and the threaded schedule disagree", func=g.q)
    if len(stages) < 4 or nloops < 4:
        raise AnalysisBroken("C12-R7: %d stages / %d slice loops found (values, gradients, total force, Jacobians expected)" % (len(stages), nloops))


def _walk_nodes(n):
    yield n
    for c in X.kids(n):
        if c is not None:
            yield from _walk_nodes(c)


def r8(F, rep):
    rep.rule("C12-R8", "the threaded bias loops range over the same biases as the serial one: every call of a bias's update(), "
                       "get_energy() or communicate_forces() from the module or the proxy sits in a loop over biases_active() "
                       "(= C01-R3, first clause)")
    from .rules_c01 import bias_loops
    bias_loops(F, rep, "C12-R8")


def work_lists(F, rep, rid="C12-R9"):
    rep.rule(rid, "the work list of a step is rebuilt for that step: in colvarmodule::calc_colvars() a list that is filled "
                  "(push_back) inside a loop over another list which the function itself clears and refills every step is "
                  "cleared before every other use of it in the function (the clear dominates the use) -- a list kept from an "
                  "earlier step names the variables that were awake then: the threads recompute those, and the variables awake "
                  "now keep stale values")
    f = F.one("colvarmodule::calc_colvars")

    def lists(kind):
        out = {}
        for c in X.calls(f):
            if c["k"] == "CXXMemberCallExpr" and X.callee_name(c) == kind and X.receiver(c) is not None:
                out.setdefault(X.re_strip(X.key(X.receiver(c), f)), []).append(c)
        return out
    clears, fills = lists("clear"), lists("push_back")
    rebuilt = {k for k in clears if k in fills}
    n = 0
    for B in sorted(rebuilt):
        # filled inside a loop over another rebuilt list?
        src = None
        for c in fills[B]:
            for an in f.ancestors(c):
                if an["k"] == "ForStmt":
                    for A in rebuilt - {B}:
                        if any(A == X.re_strip(X.key(x, f)) for x in f.walk(an["c"][1]) if an["c"][1] is not None) or \
                           any(A in X.re_strip(X.key(x, f)) for x in ([an["c"][0]] if an["c"][0] is not None else [])):
                            src = A
        if src is None:
            continue
        n += 1
        own = {id(c) for k in ("clear", "push_back", "reserve") for c in lists(k).get(B, [])}
        uses = []
        for c in X.calls(f):
            if id(c) in own or X.receiver(c) is None:
                continue
            if X.re_strip(X.key(X.receiver(c), f)) == B:
                uses.append(c)
        bad = [u for u in uses if not any(f.cfg.dominates(c, u) for c in clears[B])]
        rep.add(rid, "calc_colvars|%s" % B, f.loc(bad[0] if bad else clears[B][0]),
                "calc_colvars(): `%s` (filled from `%s`) is %s" % (B, src, "cleared before each of its %d other use(s)" % len(uses) if not bad else
                                                                  "used (%s) on a path that does not pass through its clear()" % X.callee_name(bad[0])), not bad,
                detail="with multiple-time-step variables the set of awake variables changes from step to step while its size may not", func=f.q)
    if n < 1:
        raise AnalysisBroken("%s: no derived per-step work list found in calc_colvars() (the list of parallel work items expected)" % rid)


def run(F, rep, tier):
    work_lists(F, rep)
    r8(F, rep)
    r1(F, rep)
    r2(F, rep)
    r3(F, rep)
    r4(F, rep)
    r5(F, rep)
    r6(F, rep)
    r7(F, rep)
