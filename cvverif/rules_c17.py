"""C17  Extended-Lagrangian coordinates follow the documented integrator.

The property is mostly numerical (energy conservation to second order, the BAOA update itself) and that part is NOT
decided.  Four clauses have a shape that is visible in the code on every path, and only those are decided here:

R1  a repeated step does not advance the coordinate twice (in memory): update_extended_Lagrangian() saves x_ext and v_ext
    to prev_x_ext / prev_v_ext before it modifies either; calc_colvar_properties() restores BOTH from those copies under
    the test step_relative() == prev_timestep; prev_timestep is only ever set to -1 (construction) or to step_relative()
    at the end of a step
R2  ... nor across a restart: the state writer stores the values reported for the step (x_reported / v_reported, taken from
    x_ext / v_ext before the integration of that step), the state reader loads them into x_ext / v_ext, and x_reported /
    v_reported are not assigned in the integrator
R3  the coordinate never ends a step outside reflecting boundaries: every write to x_ext in the integrator is followed, on
    every path to the exit, by the reflection test, which pairs the lower flag with lower_boundary and a negative
    overshoot and the upper flag with upper_boundary and a positive one; apply_constraints() and wrap() come after it; the
    initialisation in calc_colvar_properties() clamps with the same pairing
R4  force routing: in update_forces_energy() the bias force fb is added before the integrator runs and fb_actual (biases
    that bypass the extended coordinate) after it; inside the integrator the force on the extended coordinate is taken
    from f before f is overwritten, and f is then ASSIGNED (not added to) the coupling-spring force, so the atoms feel only
    the spring; the bias base class routes on f_cvb_bypass_ext_lagrangian (checked in C01-R3/C08-R3)
"""
from . import expr as X
from . import cond as C
from .facts import AnalysisBroken
from .rules_c10 import lvalue_writes

INTEG = "colvar::update_extended_Lagrangian"
PROPS = "colvar::calc_colvar_properties"


def writes_to(f, field):
    """[(node, op)] of direct writes to this-><field> (assignment operators, compound assignments, mutating calls)."""
    out = []
    for w, tgt in lvalue_writes(f):
        t = X.strip(tgt)
        if t["k"] == "MemberExpr" and t.get("n") == field and X.kids(t) and X.strip(X.kids(t)[0])["k"] == "CXXThisExpr":
            if w["k"] == "UnaryOperator" and w.get("op") == "&":
                continue
            op = w.get("op") if w["k"] in ("BinaryOperator", "CompoundAssignOperator", "CXXOperatorCallExpr") else X.callee_name(w)
            out.append((w, op))
    return out


def rhs_of(w):
    if w["k"] in ("BinaryOperator", "CompoundAssignOperator"):
        return X.kids(w)[1]
    if w["k"] == "CXXOperatorCallExpr":
        a = X.call_args(w)
        return a[1] if len(a) > 1 else None
    return None


def r1(F, rep):
    rep.rule("C17-R1", "a repeated step does not advance the extended coordinate twice: the integrator saves x_ext / v_ext "
                       "to prev_x_ext / prev_v_ext before modifying either of them; calc_colvar_properties() restores both "
                       "under step_relative() == prev_timestep; prev_timestep is only set to -1 or to step_relative() in "
                       "end_of_step()")
    f = F.one(INTEG)
    for var, prev in (("x_ext", "prev_x_ext"), ("v_ext", "prev_v_ext")):
        saves = [w for w, op in writes_to(f, prev) if op == "=" and rhs_of(w) is not None and X.key(rhs_of(w), f) == "this." + var]
        if not saves:
            rep.add("C17-R1", "backup|%s" % var, f.loc(), "%s is not copied to %s in the integrator" % (var, prev), False, func=f.q)
            continue
        bad = [w for v2 in ("x_ext", "v_ext") for w, op in writes_to(f, v2) if not any(f.cfg.dominates(s, w) for s in saves)]
        rep.add("C17-R1", "backup|%s" % var, f.loc(saves[0]), "`%s = %s` precedes every modification of x_ext and v_ext in the integrator (%d writes)" % (
            prev, var, sum(len(writes_to(f, v2)) for v2 in ("x_ext", "v_ext"))), not bad,
            detail="the copy would hold a partly integrated value: a repeated step would not restart from the same point", func=f.q)
        others = [w for w, op in writes_to(f, prev) if w not in saves]
        rep.add("C17-R1", "backup-only|%s" % prev, f.loc(saves[0]), "%s is written only by that copy in the integrator" % prev, not others, func=f.q)
    g = F.one(PROPS)
    res = X.const_locals(g)
    for var, prev in (("x_ext", "prev_x_ext"), ("v_ext", "prev_v_ext")):
        rest = [w for w, op in writes_to(g, var) if op == "=" and rhs_of(w) is not None and X.key(rhs_of(w), g) == "this." + prev]
        ok = False
        for w in rest:
            facts, _ = C.guard_facts(g, w, res)
            if any((t[0] == "eq" and {X.re_strip(t[1]), X.re_strip(t[2])} == {"colvarmodule::step_relative()", "this.prev_timestep"}) or
                   (t[0] == "cmp" and t[1] == "==" and {X.re_strip(t[2]), X.re_strip(t[3])} == {"colvarmodule::step_relative()", "this.prev_timestep"})
                   for t in facts):
                ok = True
        rep.add("C17-R1", "revert|%s" % var, g.loc(rest[0]) if rest else g.loc(), "%s is restored from %s under step_relative() == prev_timestep: %s" % (
            var, prev, "yes" if ok else ("restored %d time(s), not under that test" % len(rest))), ok,
            detail="re-running a step would integrate %s twice" % var, func=g.q)
    # the revert depends on nothing but the repeated-step test (and the jump test that chooses between the two resets)
    from .rules_c03 import structural_guards
    for w in [x for x, op in writes_to(g, "x_ext") if rhs_of(x) is not None and X.key(rhs_of(x), g) == "this.prev_x_ext"]:
        foreign = []
        sg = structural_guards(g, w)
        for i, (cn, pol) in enumerate(sg):
            k = X.re_strip(X.key(cn, g, res))
            if "prev_timestep" in k or "f_cv_extended_Lagrangian" in k:
                continue
            if i == 0:
                # innermost test: it must choose between re-initialising to the current value and restoring
                st = None
                for a in g.ancestors(w):
                    if a["k"] == "IfStmt":
                        st = a
                        break
                other = [x for x, op in writes_to(g, "x_ext") if st is not None and any(y is st for y in g.ancestors(x)) and x is not w]
                if other and all(rhs_of(x) is not None and X.key(rhs_of(x), g) == "this.x" for x in other):
                    continue
            foreign.append("%s is %s" % (k[:80], pol))
        rep.add("C17-R1", "revert|independent", g.loc(w), "the restore of x_ext depends only on the repeated-step test%s" % (
            "" if not foreign else "; it ALSO requires: " + "; ".join(foreign)), not foreign,
            detail="a step repeated right after a restart (or any step on which the other condition holds) re-initialises or keeps the "
                   "integrated coordinate instead of reverting it", func=g.q)
    # both restored in the same branch
    rx = [w for w, op in writes_to(g, "x_ext") if rhs_of(w) is not None and X.key(rhs_of(w), g) == "this.prev_x_ext"]
    rv = [w for w, op in writes_to(g, "v_ext") if rhs_of(w) is not None and X.key(rhs_of(w), g) == "this.prev_v_ext"]
    same = bool(rx) and bool(rv) and set(g.cfg.guards(rx[0])) == set(g.cfg.guards(rv[0]))
    rep.add("C17-R1", "revert|together", g.loc(rx[0]) if rx else g.loc(), "position and velocity are restored on the same paths", same, func=g.q)
    # prev_timestep writers
    n = 0
    for h in F.funcs.values():
        if h.cls != "colvar":
            continue
        for w, op in writes_to(h, "prev_timestep"):
            n += 1
            r = rhs_of(w)
            k = X.re_strip(X.key(r, h)) if r is not None else "?"
            ok = (h.name == "end_of_step" and k == "colvarmodule::step_relative()") or (C._lit(r) == -1 if r is not None else False) or k in ("(- 1)", "-1")
            rep.add("C17-R1", "prev_timestep|%s" % h.q, h.loc(w), "prev_timestep = %s in %s" % (k, h.q), ok,
                    detail="the repeated-step test compares against this value", func=h.q)
    if n < 2:
        raise AnalysisBroken("writes to colvar::prev_timestep not found")


def r2(F, rep):
    rep.rule("C17-R2", "across a restart: the state writer stores extended_x / extended_v from x_reported / v_reported (the "
                       "values before this step's integration), the reader loads them into x_ext / v_ext, x_reported / "
                       "v_reported are assigned from x_ext / v_ext in calc_colvar_properties() after the reversion and never "
                       "in the integrator")
    w = F.one("colvar::get_state_params")
    # find the stream insertions following the literals
    seq = []
    for n in w.walk():
        if n["k"] == "StringLiteral" and isinstance(n.get("v"), str) and ("extended_x" in n["v"] or "extended_v" in n["v"]):
            seq.append(n)
    if len(seq) < 2:
        raise AnalysisBroken("colvar::get_state_params: extended_x / extended_v literals not found")
    for lit in seq:
        name = "extended_x" if "extended_x" in lit["v"] else "extended_v"
        want = "x_reported" if name == "extended_x" else "v_reported"
        # the first member of the colvar streamed after the literal in the same << chain
        top = lit
        for a in w.ancestors(lit):
            if a["k"] == "CXXOperatorCallExpr" and a.get("op") == "<<":
                top = a
            else:
                if a["k"] not in ("ImplicitCastExpr",):
                    break
        members = []
        started = False
        for x in w.walk(top):
            if x is lit:
                started = True
            elif started and x["k"] == "StringLiteral" and x is not lit and "extended_" in str(x.get("v")):
                break
            elif started and x["k"] == "MemberExpr" and x.get("dk") == "Field" and X.kids(x) and X.strip(X.kids(x)[0])["k"] == "CXXThisExpr":
                members.append(x["n"])
        got = members[0] if members else None
        rep.add("C17-R2", "writer|%s" % name, w.loc(lit), "state key %s is written from %s" % (name, got), got == want,
                detail="saving the already integrated coordinate makes the resumed run integrate the repeated step a second time", func=w.q)
    r = F.one("colvar::set_state_params")
    for name, var in (("extended_x", "x_ext"), ("extended_v", "v_ext")):
        hit = False
        for c in X.calls(r):
            if X.callee_name(c) == "get_keyval":
                a = X.call_args(c)
                if len(a) >= 3 and X.strip(a[1])["k"] == "StringLiteral" and X.strip(a[1]).get("v") == name:
                    hit = X.key(a[2], r) == "this." + var
        rep.add("C17-R2", "reader|%s" % name, r.loc(), "state key %s is read into %s" % (name, var), hit, func=r.q)
        # the writer's source is refreshed by the reader, so that saving right after loading reproduces the state
        src = "x_reported" if var == "x_ext" else "v_reported"
        refreshed = False
        for w2, op in writes_to(r, src):
            rr = rhs_of(w2)
            if op == "=" and rr is not None and X.key(rr, r) == "this." + var:
                facts, _ = C.guard_facts(r, w2)
                if all("f_cv_extended_Lagrangian" in t[1] for t in facts if len(t) == 2 and t[0] in ("true", "false") and "is_enabled" in t[1]):
                    refreshed = True
        rep.add("C17-R2", "reader|%s|reported" % name, r.loc(), "after reading %s the reader sets %s = %s under no flag other than extendedLagrangian: %s" % (
            name, src, var, refreshed), refreshed, detail="a state saved right after loading would contain a stale %s" % src, func=r.q)
    g = F.one(PROPS)
    f = F.one(INTEG)
    for rep_var, var in (("x_reported", "x_ext"), ("v_reported", "v_ext")):
        ws = [(x, op) for x, op in writes_to(g, rep_var) if rhs_of(x) is not None and X.key(rhs_of(x), g) == "this." + var]
        reverts = [x for x, op in writes_to(g, var)]
        ok = bool(ws) and all(not g.cfg.can_reach(x, rv) for x, _ in ws for rv in reverts)
        rep.add("C17-R2", "reported|%s" % rep_var, g.loc(ws[0][0]) if ws else g.loc(), "%s = %s is the last word on %s in calc_colvar_properties(): no write to %s can follow it" % (
            rep_var, var, var, var), ok, func=g.q)
        rep.add("C17-R2", "reported|%s|not-in-integrator" % rep_var, f.loc(), "%s is not assigned in the integrator" % rep_var,
                not writes_to(f, rep_var), detail="the saved state would then hold post-integration values", func=f.q)


def r3(F, rep):
    rep.rule("C17-R3", "reflecting boundaries: every write to x_ext in the integrator is followed on every path to the exit by "
                       "the reflection test; the test pairs f_cv_reflecting_lower_boundary with lower_boundary and `< 0`, "
                       "f_cv_reflecting_upper_boundary with upper_boundary and `> 0`; the reflected position is still checked; "
                       "wrap() runs after the reflection; the initial value is clamped with the same pairing")
    f = F.one(INTEG)
    res = X.const_locals(f)
    # the reflection condition: an IfStmt condition mentioning both flags
    conds = []
    for s in f.walk():
        if s["k"] == "IfStmt":
            cs = s["c"]
            cn = cs[1] if len(cs) == 4 else cs[0]
            k = X.key(cn, f)
            if "f_cv_reflecting_lower_boundary" in k and "f_cv_reflecting_upper_boundary" in k:
                conds.append((s, cn))
    if not conds:
        rep.add("C17-R3", "reflect|present", f.loc(), "the integrator contains no test of the reflecting-boundary flags", False,
                detail="the extended coordinate is never reflected", func=f.q)
        return
    outer, ocn = conds[0]
    integ = [w for w, op in writes_to(f, "x_ext") if op in ("+=", "-=") and not any(a is outer for a in f.ancestors(w))]
    if len(integ) < 2:
        raise AnalysisBroken("position updates (x_ext += ...) not found in the integrator")
    for i, w in enumerate(integ):
        leak = f.cfg.exits_from(w, avoiding=[ocn])
        rep.add("C17-R3", "reflect-after|#%d|%s" % (i + 1, X.text(rhs_of(w), f)[:40]), f.loc(w), "after `x_ext %s %s` every path to the exit passes the reflection test" % (
            w.get("op"), X.text(rhs_of(w), f)[:40]), not leak, detail="the coordinate can end the step beyond a reflecting boundary", func=f.q)

    def pairing(fn, cn, what):
        """each disjunct: flag F with boundary B and comparison sign."""
        k = X.re_strip(X.key(cn, fn, X.const_locals(fn)))
        parts = []
        stack = [X.strip(cn)]
        while stack:
            n = stack.pop()
            if n["k"] == "BinaryOperator" and n["op"] == "||":
                stack.extend(X.strip(c) for c in X.kids(n))
            else:
                parts.append(n)
        out = []
        for p in parts:
            pk = X.re_strip(X.key(p, fn))
            side = "lower" if "f_cv_reflecting_lower_boundary" in pk else ("upper" if "f_cv_reflecting_upper_boundary" in pk else None)
            if side is None:
                continue
            other = "upper" if side == "lower" else "lower"
            wrong_b = ("this.%s_boundary" % other) in pk or ("this.%s_boundary" % side) not in pk
            # comparison direction
            cmpop = None
            for x in fn.walk(p):
                if x["k"] == "BinaryOperator" and x["op"] in ("<", ">", "<=", ">="):
                    cmpop = x["op"]
                elif x["k"] == "CXXOperatorCallExpr" and x.get("op") in ("<", ">", "<=", ">="):
                    cmpop = x["op"]
            want = "<" if side == "lower" else ">"
            out.append((side, not wrong_b and cmpop is not None and cmpop[0] == want, pk))
        return out
    for side, ok, pk in pairing(f, ocn, "reflection"):
        rep.add("C17-R3", "pairing|reflect|%s" % side, f.loc(ocn), "reflection test, %s side: %s" % (side, pk[:140]), ok,
                detail="a boundary flag is tested against the other boundary or with the wrong sign", func=f.q)
    if len(pairing(f, ocn, "")) != 2:
        rep.add("C17-R3", "pairing|reflect|both", f.loc(ocn), "reflection test covers both sides", False, func=f.q)
    # inside: position reflected, and still-outside check raises
    body = outer["c"][-2]
    refl = [w for w, op in writes_to(f, "x_ext") if any(a is outer for a in f.ancestors(w))]
    errs = [c for c in X.calls(f, body) if c.get("cq") == "colvarmodule::error"]
    rep.add("C17-R3", "reflect|body", f.loc(outer), "inside the reflection branch x_ext is moved back (%d write(s)) and a position still outside raises an error (%d)" % (
        len(refl), len(errs)), bool(refl) and bool(errs), func=f.q)
    if len(conds) > 1:
        for side, ok, pk in pairing(f, conds[1][1], "recheck"):
            rep.add("C17-R3", "pairing|recheck|%s" % side, f.loc(conds[1][1]), "post-reflection check, %s side: %s" % (side, pk[:140]), ok, func=f.q)
    # wrap after reflection
    wraps = [c for c in X.calls(f) if X.callee_name(c) == "wrap" and X.call_args(c) and X.key(X.call_args(c)[0], f) == "this.x_ext"]
    ok = bool(wraps) and all(f.cfg.can_reach(ocn, c) and not f.cfg.can_reach(c, ocn) for c in wraps)
    rep.add("C17-R3", "wrap-after", f.loc(wraps[0]) if wraps else f.loc(), "wrap(x_ext) runs after the reflection", ok, func=f.q)
    # initial clamp
    g = F.one(PROPS)
    n = 0
    for s in g.walk():
        if s["k"] != "IfStmt":
            continue
        cs = s["c"]
        cn = cs[1] if len(cs) == 4 else cs[0]
        k = X.re_strip(X.key(cn, g))
        for side in ("lower", "upper"):
            if "f_cv_reflecting_%s_boundary" % side in k and "x_ext" in k:
                n += 1
                assigns = [w for w, op in writes_to(g, "x_ext") if any(a is s for a in g.ancestors(w)) and rhs_of(w) is not None]
                ok = bool(assigns) and all(X.key(rhs_of(w), g) == "this.%s_boundary" % side for w in assigns) and ("this.%s_boundary" % side) in k
                rep.add("C17-R3", "init-clamp|%s" % side, g.loc(s), "initial value beyond the %s reflecting boundary is set to %s_boundary" % (side, side), ok, func=g.q)
    if n < 2:
        raise AnalysisBroken("initial clamp of x_ext not found in calc_colvar_properties")


def integrator_locals(f):
    """Decl ids of the two force locals of the integrator, identified by ROLE (names may change):
    ext    the local that receives the variable's force f (scaled back by the time-step factor): force on the coordinate
    spring the local assigned, for variables that are not driven externally, the force of the coupling spring"""
    ext, spring = None, None
    for w, tgt in lvalue_writes(f):
        t = X.strip(tgt)
        if t["k"] != "DeclRefExpr" or t.get("st") != "local" or w.get("op") != "=":
            continue
        r = rhs_of(w)
        if r is None:
            continue
        if ext is None and "this.f" in [X.key(x, f) for x in f.walk(r) if x["k"] == "MemberExpr"]:
            ext = t["d"]
        facts, _ = C.guard_facts(f, w)
        if spring is None and any(x[0] == "false" and "f_cv_external" in x[1] for x in facts):
            spring = t["d"]
    return ext, spring


def r4(F, rep):
    rep.rule("C17-R4", "force routing: update_forces_energy() adds fb to f before the integrator and fb_actual after it; in the "
                       "integrator the force on the extended coordinate is read from f before f is overwritten, f is then "
                       "assigned (not incremented by) minus the spring force on the coordinate, and f_ext receives the spring force")
    u = F.one("colvar::update_forces_energy")
    call = [c for c in X.calls(u) if X.callee_name(c) == "update_extended_Lagrangian"]
    if not call:
        raise AnalysisBroken("update_forces_energy does not call the integrator")
    call = call[0]
    addfb = [w for w, op in writes_to(u, "f") if op == "+=" and X.key(rhs_of(w), u) == "this.fb"]
    addact = [w for w, op in writes_to(u, "f") if op == "+=" and X.key(rhs_of(w), u) == "this.fb_actual"]
    rep.add("C17-R4", "order|fb", u.loc(addfb[0]) if addfb else u.loc(), "f += fb happens before the integrator runs",
            bool(addfb) and all(u.cfg.can_reach(w, call) and not u.cfg.can_reach(call, w) for w in addfb),
            detail="the bias force would act on the atoms instead of the extended coordinate", func=u.q)
    rep.add("C17-R4", "order|fb_actual", u.loc(addact[0]) if addact else u.loc(), "f += fb_actual happens after the integrator",
            bool(addact) and all(u.cfg.can_reach(call, w) and not u.cfg.can_reach(w, call) for w in addact),
            detail="forces of biases that bypass the extended coordinate would be fed to it (or overwritten by the spring force)", func=u.q)
    facts, _ = C.guard_facts(u, call)
    rep.add("C17-R4", "integrator|guard", u.loc(call), "the integrator runs under f_cv_extended_Lagrangian (and only while a simulation is running)",
            any(t[0] == "true" and "f_cv_extended_Lagrangian" in t[1] for t in facts), func=u.q)
    f = F.one(INTEG)
    # f_ext = f / tsf  read before f is overwritten
    ext_d, spring_d = integrator_locals(f)
    if ext_d is None or spring_d is None:
        raise AnalysisBroken("integrator: the locals holding the force on the coordinate / the spring force were not found")
    cres = X.const_locals(f)

    def mentions_spring(e, depth=0):
        if X.mentions(e, lambda y: y["k"] == "DeclRefExpr" and y.get("d") == spring_d):
            return True
        if depth < 3:
            for y in f.walk(e):
                if y["k"] == "DeclRefExpr" and y.get("d") in cres and mentions_spring(cres[y["d"]], depth + 1):
                    return True
        return False
    fext_defs = []
    for w, tgt in lvalue_writes(f):
        t = X.strip(tgt)
        if t["k"] == "DeclRefExpr" and t.get("d") == ext_d and w["k"] in ("CXXOperatorCallExpr", "BinaryOperator") and w.get("op") == "=":
            r = rhs_of(w)
            if r is not None and "this.f" in [X.key(x, f) for x in f.walk(r) if x["k"] == "MemberExpr"]:
                fext_defs.append(w)
    overw = [w for w, op in writes_to(f, "f") if op == "="]
    rep.add("C17-R4", "fext|from-f", f.loc(fext_defs[0]) if fext_defs else f.loc(), "the force on the extended coordinate is taken from f (%d site) before f is overwritten (%d site)" % (
        len(fext_defs), len(overw)), bool(fext_defs) and bool(overw) and all(f.cfg.can_reach(d, o) and not f.cfg.can_reach(o, d) for d in fext_defs for o in overw),
        detail="the extended coordinate would feel the spring force twice and no bias force", func=f.q)
    for o in overw:
        r = rhs_of(o)
        k = X.re_strip(X.key(r, f, cres)) if r is not None else ""
        rep.add("C17-R4", "f|assigned-spring", f.loc(o), "f is assigned `%s` (the reaction of the spring force on the coordinate)" % k[:60],
                r is not None and mentions_spring(r) and ("-" in k), detail="with += the atoms would feel the bias force as well as the spring", func=f.q)
        facts, _ = C.guard_facts(f, o)
        rep.add("C17-R4", "f|assigned-spring|guard", f.loc(o), "that assignment happens exactly when the variable is not driven externally",
                any(t[0] == "false" and "f_cv_external" in t[1] for t in facts), func=f.q)
    incr = [w for w, op in writes_to(f, "f") if op == "+="]
    for w in incr:
        facts, _ = C.guard_facts(f, w)
        rep.add("C17-R4", "f|incremented", f.loc(w), "f += %s only for externally driven variables" % X.text(rhs_of(w), f)[:30],
                any(t[0] == "true" and "f_cv_external" in t[1] for t in facts), func=f.q)
    adds = []
    for w, tgt in lvalue_writes(f):
        t = X.strip(tgt)
        if t["k"] == "DeclRefExpr" and t.get("d") == ext_d and w.get("op") == "+=":
            adds.append(w)
    rep.add("C17-R4", "fext|plus-system", f.loc(adds[0]) if adds else f.loc(), "the spring force is added to the force on the coordinate on every path (%d site)" % len(adds),
            len(adds) == 1 and mentions_spring(rhs_of(adds[0])) and not f.cfg.real_guards(adds[0]) or
            (len(adds) == 1 and all("prev_timestep" in X.key(f.nodes[c], f) or "n_timesteps" in X.key(f.nodes[c], f) for c, p in f.cfg.real_guards(adds[0]))),
            detail="the coordinate would not feel the coupling spring", func=f.q)


def r5(F, rep):
    rep.rule("C17-R5", "the coupling spring has one source: the coupling energy (potential_energy) and the spring force "
                       "(f_system of a variable that is not driven externally) are computed in the integrator from the "
                       "variable's own metric, dist2() and dist2_lgrad(), applied to the same pair (x_ext, x); no raw "
                       "difference of the two values enters the spring force")
    f = F.one(INTEG)
    pot = [w for w, op in writes_to(f, "potential_energy") if op == "="]
    spring = []
    for w, tgt in lvalue_writes(f):
        t = X.strip(tgt)
        if t["k"] == "DeclRefExpr" and t.get("st") == "local" and w.get("op") == "=":
            facts, _ = C.guard_facts(f, w)
            if any(x[0] == "false" and "f_cv_external" in x[1] for x in facts):
                spring.append(w)
    spring = spring[:1]
    if not pot or not spring:
        raise AnalysisBroken("integrator: coupling energy / spring force assignments not found")

    def metric(w, fam):
        out = []
        for c in X.calls(f, rhs_of(w)):
            if X.callee_name(c) in fam and (X.receiver(c) is None or X.strip(X.receiver(c))["k"] == "CXXThisExpr"):
                out.append(tuple(X.re_strip(X.key(a, f)) for a in X.call_args(c)))
        return out
    mp = [m for w in pot for m in metric(w, ("dist2",))]
    ms = [m for w in spring for m in metric(w, ("dist2_lgrad",))]
    ok = len(mp) == 1 and len(ms) == 1 and mp[0] == ms[0] and set(mp[0]) == {"this.x_ext", "this.x"}
    rep.add("C17-R5", "spring|metric", f.loc(spring[0]), "coupling energy from dist2%s, spring force from dist2_lgrad%s" % (mp, ms), ok,
            detail="energy and force of the coupling would disagree for periodic variables (or whenever the metric is not the plain difference)", func=f.q)
    for w in spring:
        raw = [x for x in f.walk(rhs_of(w)) if (x["k"] == "CXXOperatorCallExpr" and x.get("op") == "-" and len(X.call_args(x)) == 2 and
                                                 {X.re_strip(X.key(a, f)) for a in X.call_args(x)} == {"this.x", "this.x_ext"})]
        rep.add("C17-R5", "spring|no-raw-difference", f.loc(w), "the spring force contains no raw difference of x and x_ext", not raw, func=f.q)


def r6(F, rep):
    from . import mirror
    mirror.check(F, rep, "C17-R6", lambda f: f.q in ("colvar::calc_colvar_properties", "colvar::init_extended_Lagrangian",
                                                     "colvar::update_extended_Lagrangian"), 2,
                 "the extended-Lagrangian code (reflecting-boundary flags and the boundaries they refer to)")


def r7(F, rep):
    rep.rule("C17-R7", "what the repeated-step branch reads is maintained at every step: a member of the variable that is read inside "
                       "the branch guarded by step_relative() == prev_timestep (other than the saved prev_* copies) is assigned in "
                       "end_of_step() under no feature test except the extended-Lagrangian one -- the jump test compares the "
                       "current value with the value of the previous step, whatever output options are on")
    from .rules_c03 import all_guards
    g = F.one(PROPS)
    res = X.const_locals(g)
    reads = set()
    partner = {}
    for m in g.walk():
        if m["k"] != "MemberExpr" or m.get("dk") != "Field" or not X.key(m, g).startswith("this.") or X.key(m, g).count(".") != 1:
            continue
        nm = m.get("n") or ""
        if nm.startswith("prev_") or nm in ("x", "x_ext", "v_ext", "width"):
            continue
        gs = all_guards(g, m)
        if any("prev_timestep" in X.key(cn, g, res) for cn, pol in gs if pol):
            # only operands that are READ (not the targets of the restores)
            par = g.parent(m)
            if par is not None and par["k"] in ("BinaryOperator", "CXXOperatorCallExpr") and par.get("op") == "=" and X.strip((X.kids(par) if par["k"] == "BinaryOperator" else X.call_args(par))[0]) is m:
                continue
            reads.add(nm)
            # the member it is compared with: the other plain member passed to the same call
            if par is not None and par["k"] in ("CallExpr", "CXXMemberCallExpr"):
                for a in X.call_args(par):
                    ka = X.key(a, g)
                    if X.strip(a) is not m and ka.startswith("this.") and ka.count(".") == 1:
                        partner.setdefault(nm, set()).add(X.re_strip(ka))
    if not reads:
        raise AnalysisBroken("C17-R7: the repeated-step branch reads no member besides the saved copies (x_old expected)")
    e = F.one("colvar::end_of_step")
    for nm in sorted(reads):
        ws = [w for w, op in writes_to(e, nm)]
        ok = False
        why = "is never assigned in end_of_step()"
        for w in ws:
            feats = [X.re_strip(X.key(cn, e)) for cn, pol in all_guards(e, w) if "is_enabled" in X.key(cn, e) and "f_cv_extended_Lagrangian" not in X.key(cn, e)]
            if not feats:
                ok = True
            else:
                why = "is assigned in end_of_step() only under %s" % feats
        rep.add("C17-R7", "end_of_step|%s" % nm, e.loc(ws[0]) if ws else e.loc(), "`%s` (read by the repeated-step branch) %s" % (
            nm, "is refreshed at the end of every step" if ok else why), ok,
            detail="with a stale value the repeated step is taken for a discrete jump (or the reverse) and the coordinate is re-initialised instead of reverted", func=e.q)
        for k2 in sorted(partner.get(nm, ())):
            eres = dict(X.const_locals(e))
            # a const reference local is another name of what it was bound to
            for d in e.walk():
                if d["k"] == "VarDecl" and d.get("st") == "local" and d.get("ref") and e.typestr(d.get("t")).startswith("const ") and len(X.kids(d)) == 1:
                    eres[d["d"]] = X.kids(d)[0]
            srcs = []
            for w in ws:
                if w["k"] == "BinaryOperator" and w.get("op") == "=":
                    srcs.append(X.re_strip(X.key(X.kids(w)[1], e, eres)))
                elif w["k"] == "CXXOperatorCallExpr" and w.get("op") == "=":
                    srcs.append(X.re_strip(X.key(X.call_args(w)[1], e, eres)))
            bad = [x for x in srcs if x != k2]
            rep.add("C17-R7", "end_of_step|%s|source" % nm, e.loc(ws[0]) if ws else e.loc(),
                    "the repeated-step branch compares `%s` with `%s`; end_of_step() assigns it from %s" % (nm, k2, sorted(set(srcs)) or "nothing"),
                    bool(srcs) and not bad,
                    detail="the jump test then measures the distance between two different quantities of the previous step "
                           "(with an extended coordinate: the stretch of the coupling spring), and a repeated step is taken for a jump", func=e.q)


def derived_defaults(F, rep, rid="C17-R8"):
    rep.rule(rid, "a base class does not undo a derived class's default: where a constructor of a class enables a user feature "
                  "(harmonicWalls bypasses the extended coordinate by default) and a base-class init() reads the keyword of that "
                  "feature with get_keyval_feature(), the default passed is the feature's current state (is_enabled(F)), not a "
                  "literal -- the keyword's default is applied even when the keyword is absent")
    ctor_on = {}
    for f in F.funcs.values():
        if "/src/" not in f.file or f.body is None or not f.ctor or not f.cls:
            continue
        for c in X.calls(f):
            if X.callee_name(c) in ("enable", "set_enabled") and X.call_args(c) and not (len(X.call_args(c)) > 1 and C._lit(X.call_args(c)[1]) == 0):
                a = X.strip(X.call_args(c)[0])
                if a["k"] == "DeclRefExpr" and (a.get("n") or "").startswith("f_"):
                    ctor_on.setdefault(a["n"], set()).add(f.cls)
    n = 0
    for f in sorted(F.funcs.values(), key=lambda g: g.q):
        if "/src/" not in f.file or f.body is None or not f.cls:
            continue
        for c in X.calls(f):
            if X.callee_name(c) != "get_keyval_feature" or len(X.call_args(c)) < 5:
                continue
            args = X.call_args(c)
            feat = X.strip(args[3])
            if feat["k"] != "DeclRefExpr" or feat.get("n") not in ctor_on:
                continue
            users = sorted(k for k in ctor_on[feat["n"]] if f.cls in F.bases(k) or k == f.cls)
            if not users:
                continue
            n += 1
            d = X.re_strip(X.key(args[4], f))
            ok = "is_enabled" in d and feat["n"] in d
            rep.add(rid, "%s|%s" % (f.q, feat["n"]), f.loc(c), "%s reads the keyword of `%s` (enabled by the constructor of %s) with default `%s`" % (f.q, feat["n"], users, d[:60]), ok,
                    detail="the class's documented default is silently replaced by the literal whenever the user does not write the keyword", func=f.q)
    if n < 1:
        raise AnalysisBroken("%s: no keyword of a constructor-enabled feature found (bypassExtendedLagrangian expected)" % rid)


def run(F, rep, tier):
    derived_defaults(F, rep)
    r7(F, rep)
    r1(F, rep)
    r2(F, rep)
    r3(F, rep)
    r4(F, rep)
    r5(F, rep)
    r6(F, rep)
