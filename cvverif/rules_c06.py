"""C06  Restraints implement their documented potentials and time schedules.

R1  schedules are functions of the absolute step: in the moving-restraint update functions step_relative() occurs
    only inside branch conditions (the restart-eligibility idiom), never in a value that flows into lambda, stage,
    force_k or the centers; the schedule origin first_step and the stage counter are part of the state (C03-R1)
R2  composite restraints run the same pipeline: parameters (centers, force constant) are updated before energy and
    forces are computed, accumulated work after
R3  sibling formulas share their source: for every restraint class restraint_potential(), restraint_force() and
    d_restraint_potential_dk() measure the displacement with the same call on the same arguments
"""
from . import expr as X
from . import cond as C
from .facts import AnalysisBroken
from .rules_c03 import in_condition, read_keys, written_keys, StateTables
from .rules_c10 import lvalue_writes


def r1(F, rep):
    rep.rule("C06-R1", "time schedules depend on the absolute step only: in colvarbias_restraint_centers_moving::update, "
                       "colvarbias_restraint_k_moving::update and their update_acc_work, step_relative() appears only "
                       "inside branch conditions; first_step and stage are written to and read from the state")
    n = 0
    for q in ("colvarbias_restraint_centers_moving::update", "colvarbias_restraint_k_moving::update",
              "colvarbias_restraint_centers_moving::update_acc_work", "colvarbias_restraint_k_moving::update_acc_work",
              "colvarbias_restraint_centers_moving::update_centers"):
        for f in F.func_q(q):
            uses = [c for c in X.calls(f) if c.get("cq") == "colvarmodule::step_relative"]
            abs_uses = [c for c in X.calls(f) if c.get("cq") == "colvarmodule::step_absolute"]
            bad = [c for c in uses if not in_condition(f, c)]
            n += 1
            rep.add("C06-R1", "%s|step_relative" % q, f.loc(bad[0]) if bad else f.loc(),
                    "%s: %d use(s) of step_relative(), %s; %d use(s) of step_absolute()" % (
                        q, len(uses), "all inside conditions" if not bad else "%d flow into a VALUE" % len(bad), len(abs_uses)),
                    not bad, detail="the centre or force constant would depend on how the run is segmented", func=q)
    if n < 4:
        raise AnalysisBroken("moving-restraint update functions not found")
    # the schedule reads first_step in its arithmetic
    for q in ("colvarbias_restraint_centers_moving::update", "colvarbias_restraint_k_moving::update"):
        f = F.one(q)
        uses_first = X.mentions(f.body, lambda x: x["k"] == "MemberExpr" and x.get("n") == "first_step")
        rep.add("C06-R1", "%s|origin" % q, f.loc(), "%s measures time from first_step" % q, uses_first, func=q)
    # state tables
    T = StateTables(F)
    w = F.one("colvarbias_restraint_moving::get_state_params")
    r = F.one("colvarbias_restraint_moving::set_state_params")
    wk = {k for k, _ in written_keys(w)}
    rk = {k for k, _, _ in read_keys(r)}
    for key in ("firstStep", "stage"):
        rep.add("C06-R1", "state|%s" % key, w.loc(), "`%s` is written (%s) and read (%s)" % (key, key in wk, key in rk),
                key in wk and key in rk, func=w.q)


def r2(F, rep):
    rep.rule("C06-R2", "composite restraints (harmonic, harmonicWalls, linear) run the same pipeline in update(): moving "
                       "parameters are updated first, then energy and forces (colvarbias_restraint::update), then "
                       "accumulated work")
    n = 0
    for cls in ("colvarbias_restraint_harmonic", "colvarbias_restraint_harmonic_walls", "colvarbias_restraint_linear"):
        fs = [f for f in F.funcs.values() if f.cls == cls and f.name == "update"]
        if not fs:
            raise AnalysisBroken("%s::update not found" % cls)
        f = fs[0]
        calls = [c for c in X.calls(f) if c.get("cq", "").startswith("colvarbias_")]
        params = [c for c in calls if c["cq"].endswith("_moving::update")]
        core = [c for c in calls if c["cq"] == "colvarbias_restraint::update"]
        work = [c for c in calls if c["cq"].endswith("::update_acc_work")]
        n += 1
        ok = bool(params) and len(core) == 1 and all(f.cfg.can_reach(p, core[0]) and not f.cfg.can_reach(core[0], p) for p in params) \
            and all(f.cfg.can_reach(core[0], w) and not f.cfg.can_reach(w, core[0]) for w in work) and len(work) == len(params)
        rep.add("C06-R2", "%s|pipeline" % cls, f.loc(), "%s::update: %d parameter update(s) -> energy/forces -> %d work update(s): %s" % (
            cls, len(params), len(work), "in order" if ok else "OUT OF ORDER or unbalanced"), ok,
            detail="energy and force would be computed with the previous step's centre or force constant", func=f.q)
    rep.count("composite_restraints", n)


DIST_CALLS = ("dist2", "dist2_lgrad", "dist2_rgrad", "colvar_distance")


def r3(F, rep):
    rep.rule("C06-R3", "for every restraint class the three sibling formulas restraint_potential(), restraint_force() and "
                       "d_restraint_potential_dk() take the displacement from the same source: the same distance function "
                       "family applied to the same pair of arguments (or all of them colvar_distance(i) for walls)")
    classes = sorted({f.cls for f in F.funcs.values() if f.name == "restraint_potential" and f.cls})
    n = 0
    for cls in classes:
        sib = {}
        for name in ("restraint_potential", "restraint_force", "d_restraint_potential_dk"):
            fs = [f for f in F.funcs.values() if f.cls == cls and f.name == name]
            if fs:
                sib[name] = fs[0]
        if len(sib) < 3:
            continue
        n += 1
        srcs = {}
        for name, f in sib.items():
            res = X.const_locals(f)
            got = set()
            for c in X.calls(f):
                nm = X.callee_name(c)
                if nm in DIST_CALLS:
                    args = tuple(X.re_strip(X.key(a, f, res)) for a in X.call_args(c))
                    fam = "colvar_distance" if nm == "colvar_distance" else "dist2*"
                    got.add((fam, args))
            if not got:
                # linear forms: value() - center
                for x in f.walk():
                    if x["k"] in ("BinaryOperator", "CXXOperatorCallExpr") and x.get("op") == "-":
                        k = X.re_strip(X.key(x, f, res))
                        if "value()" in k and "colvar_centers" in k:
                            got.add(("difference", (k,)))
            srcs[name] = got
        nonempty = {k: v for k, v in srcs.items() if v}
        vals = list(nonempty.values())
        ok = len(nonempty) >= 2 and all(v == vals[0] for v in vals)
        if not nonempty:
            ok = True
        rep.add("C06-R3", "%s|source" % cls, sib["restraint_potential"].loc(),
                "%s: displacement sources %s" % (cls, {k: sorted(v) for k, v in srcs.items()}), ok,
                detail="energy, force and dU/dk would be evaluated at different displacements", func=cls)
    if n < 3:
        raise AnalysisBroken("only %d restraint classes with the three sibling formulas found" % n)


def r4(F, rep):
    """Restart-segmentation independence of the schedules = C03-R4 restricted to the restraint classes."""
    from . import rules_c03
    from .common import Report
    tmp = Report("C03", rep.tier)
    rules_c03.r4(F, tmp)
    rep.rule("C06-R4", "however the run is segmented, the schedule state advances once per step: the updates of the stage "
                       "counter and of the accumulated work in the restraint classes are gated by step_relative() > 0 "
                       "(C03-R4 restricted to colvarbias_restraint*), so the repeated first step of a resumed run does not "
                       "advance them twice")
    import json, os
    from .common import KNOWN_FILE
    known = set()
    if os.path.exists(KNOWN_FILE):
        known = {k["key"] for k in json.load(open(KNOWN_FILE)).get("known", []) if k["property"] == "C03"}
    n = 0
    for o in tmp.obls:
        if "colvarbias_restraint" in o.func and ("|stage|" in o.key or "|acc_work|" in o.key):
            n += 1
            rep.add("C06-R4", o.key.split("|", 1)[1], o.loc, o.what, o.ok, detail=o.detail, func=o.func)
    if n < 3:
        raise AnalysisBroken("only %d schedule-state updates found in the restraint classes" % n)


def r5(F, rep):
    from . import mirror
    mirror.check(F, rep, "C06-R5", lambda f: f.cls == "colvarbias_restraint_harmonic_walls" or f.q == "colvar::parse_legacy_wall_params", 6,
                 "the harmonic-walls restraint (lower/upper walls, their flags and force constants)")


def r6(F, rep, rid="C06-R6"):
    rep.rule(rid, "accumulated work is collected only while the schedule runs: in both update_acc_work() siblings "
                       "(moving centres, moving force constant) the `acc_work +=` site is gated by step_relative() > 0, by the "
                       "schedule window step_absolute() - first_step <= target_nsteps, by outputAccumulatedWork and by the "
                       "restraint's own change flag -- the same set of gates in both")
    sib = {}
    for q in ("colvarbias_restraint_centers_moving::update_acc_work", "colvarbias_restraint_k_moving::update_acc_work"):
        f = F.one(q)
        res = X.const_locals(f)
        adds = [w for w, t in lvalue_writes(f) if X.key(t, f) == "this.acc_work" and w.get("op") == "+="]
        if not adds:
            rep.add(rid, "%s|present" % q, f.loc(), "%s never adds to acc_work" % q, False, func=q)
            continue
        facts, _ = C.guard_facts(f, adds[0], res)
        gates = set()
        for t in facts:
            s = X.re_strip(str(t))
            if t[0] == "pos" and "step_relative()" in t[1]:
                gates.add("step_relative() > 0")
            if t[0] == "cmp" and t[1] == "<=" and "first_step" in t[2] and "target_nsteps" in t[3]:
                gates.add("schedule window")
            if t[0] == "true" and "f_cvb_output_acc_work" in t[1]:
                gates.add("outputAccumulatedWork")
            if t[0] == "true" and ("b_chg_centers" in t[1] or "b_chg_force_k" in t[1]):
                gates.add("change flag")
        sib[q] = gates
        want = {"step_relative() > 0", "schedule window", "outputAccumulatedWork", "change flag"}
        rep.add(rid, "%s|gates" % q, f.loc(adds[0]), "%s accumulates work under: %s" % (q, sorted(gates)), gates == want,
                detail="missing gate(s) %s: work would keep accumulating after the parameter stopped changing, or on the repeated first step" % sorted(want - gates), func=q)
    if len(sib) == 2:
        a, b = list(sib.values())
        rep.add(rid, "siblings-agree", "", "both siblings use the same gates", a == b, func="colvarbias_restraint_*_moving::update_acc_work")


def _factors(n, f, res, num, den, inv=False):
    n = X.strip(n)
    if n["k"] == "DeclRefExpr" and res and n.get("d") in res:
        return _factors(res[n["d"]], f, res, num, den, inv)
    if n["k"] == "UnaryOperator" and n.get("op") == "-":
        (den if inv else num).append("-1")
        return _factors(X.kids(n)[0], f, res, num, den, inv)
    if n["k"] == "BinaryOperator" and n["op"] in ("*", "/"):
        a, b = X.kids(n)
        _factors(a, f, res, num, den, inv)
        _factors(b, f, res, num, den, inv if n["op"] == "*" else not inv)
        return
    if n["k"] == "CXXOperatorCallExpr" and n.get("op") in ("*", "/") and len(X.call_args(n)) == 2:
        a, b = X.call_args(n)
        _factors(a, f, res, num, den, inv)
        _factors(b, f, res, num, den, inv if n["op"] == "*" else not inv)
        return
    if n["k"] in ("CXXConstructExpr", "CXXFunctionalCastExpr", "CXXTemporaryObjectExpr", "ParenExpr") and len([c for c in X.kids(n) if c["k"] != "CXXDefaultArgExpr"]) == 1:
        return _factors([c for c in X.kids(n) if c["k"] != "CXXDefaultArgExpr"][0], f, res, num, den, inv)
    (den if inv else num).append(X.re_strip(X.key(n, f, res)))


def r7(F, rep):
    rep.rule("C06-R7", "the work integrand is the potential without the force constant: for every restraint class, the factors "
                       "(numerator and denominator, const locals resolved) of the value returned by d_restraint_potential_dk() "
                       "are those of restraint_potential() minus the force constant -- a per-wall constant, a width or a "
                       "displacement that appears in one appears in the other")
    n = 0
    for cls in sorted(F.subclasses("colvarbias_restraint", strict=True)):
        pot = F.find_method(cls, "restraint_potential")
        duk = F.find_method(cls, "d_restraint_potential_dk")
        if not pot or not duk or pot[0].cls != cls or duk[0].cls != cls:
            continue
        out = {}
        for nm, g in (("U", pot[0]), ("dU/dk", duk[0])):
            rets = [r for r in g.walk() if r["k"] == "ReturnStmt" and X.kids(r)]
            if len(rets) != 1:
                out = None
                break
            num, den = [], []
            _factors(X.kids(rets[0])[0], g, X.const_locals(g), num, den)
            num = [x for x in num if x not in ("1", "1.0")]
            den = [x for x in den if x not in ("1", "1.0")]
            out[nm] = (sorted(num), sorted(den))
        if out is None:
            continue
        n += 1
        un, ud = out["U"]
        dn, dd = out["dU/dk"]
        un2 = list(un)
        had_k = "this.force_k" in un2
        if had_k:
            un2.remove("this.force_k")
        ok = had_k and sorted(un2) == sorted(dn) and ud == dd
        rep.add("C06-R7", "%s|dU/dk" % cls, duk[0].loc(), "%s: U = %s / %s ; dU/dk = %s / %s" % (cls, un, ud or ["1"], dn, dd or ["1"]), ok,
                detail="the accumulated work W = sum dU/dk dk written to the trajectory and the state is not the work of the potential that is applied", func=cls)
    if n < 3:
        raise AnalysisBroken("C06-R7: only %d restraint classes with potential and dU/dk found" % n)


def run(F, rep, tier):
    r7(F, rep)
    r1(F, rep)
    r2(F, rep)
    r3(F, rep)
    r4(F, rep)
    r5(F, rep)
    r6(F, rep)
