"""C08  Bias contributions superpose; multiple-time-step scaling conserves impulse.

R1  accumulator discipline: fb, fb_actual, total_bias_energy (and the proxy's new-force arrays) are written
    only by reset sites and add sites
R2  reset precedes accumulation in calc_biases
R3  communicate_forces: nothing is added when apply_force is off; the bypass / non-bypass add sites pass the
    same scaled force, which references time_step_factor
R4  awake schedule: biases and variables are woken by the same test; only enabled objects enter the active lists
R5  update_forces_energy resets the applied force first and returns zero energy when inactive
R6  the accumulated energy is handed to the engine only after every producer (biases, scripted forces) has run
"""
from . import expr as X
from . import cond as C
from . import callgraph
from .facts import AnalysisBroken
from .rules_c10 import lvalue_writes, member_root

ACCS = {
    "colvar::fb": "bias force on a variable",
    "colvar::fb_actual": "bias force on the actual value (bypassing the extended coordinate)",
    "colvarmodule::total_bias_energy": "sum of bias energies",
}
RESET_CALLS = ("reset", "type")
ADD_OPS = ("+=",)


def classify_write(f, w, tgt):
    """'reset' | 'add' | 'other' for a write to an accumulator."""
    if w["k"] == "CompoundAssignOperator":
        return "add" if w["op"] in ADD_OPS else "other"
    if w["k"] == "CXXOperatorCallExpr":
        if w.get("op") == "+=":
            return "add"
        if w.get("op") == "=":
            return "other"
        return "other"
    if w["k"] == "BinaryOperator" and w["op"] == "=":
        v = C._lit(X.kids(w)[1])
        return "reset" if v == 0 else "other"
    if w["k"] == "CXXMemberCallExpr":
        nm = X.callee_name(w)
        if nm in RESET_CALLS:
            return "reset"
        return "other"
    if w["k"] in ("CallExpr", "CXXConstructExpr"):
        return "passed-by-reference"
    return "other"


def r1(F, rep):
    rep.rule("C08-R1", "accumulator discipline: colvar::fb, colvar::fb_actual and colvarmodule::total_bias_energy are "
                       "written only by reset sites (zero / reset()) and add sites (+=) anywhere in the library")
    n = 0
    for f in F.funcs.values():
        if "/src/" not in f.file:
            continue
        for w, tgt in lvalue_writes(f):
            q = None
            for x in f.walk(tgt):
                if x["k"] == "MemberExpr" and x.get("q") in ACCS:
                    q = x["q"]
                if x["k"] == "DeclRefExpr" and x.get("q") in ACCS:
                    q = x["q"]
            if q is None:
                continue
            # writes to a sub-object reached through the accumulator (fb.real_value = ...) count too
            kind = classify_write(f, w, tgt)
            n += 1
            ok = kind in ("reset", "add")
            rep.add("C08-R1", "%s|%s|%s|%s" % (f.q, q, kind, X.text(w, f)[:60]), f.loc(w),
                    "%s is written in %s by a %s site: %s" % (q, f.q, kind, X.text(w, f)[:80]), ok,
                    detail="with plain assignment the last bias would win instead of the sum", func=f.q)
    if n < 6:
        raise AnalysisBroken("only %d writes to the force/energy accumulators found" % n)


def r2(F, rep):
    rep.rule("C08-R2", "in calc_biases every variable's bias force and the total bias energy are reset before any bias "
                       "is updated or any energy is added")
    f = F.one("colvarmodule::calc_biases")
    resets = [c for c in X.calls(f) if X.callee_name(c) == "reset_bias_force"]
    zero = [w for w, tgt in lvalue_writes(f) if X.key(tgt, f) in ("this.total_bias_energy", "colvarmodule::total_bias_energy")
            and classify_write(f, w, tgt) == "reset"]
    users = [c for c in X.calls(f) if X.callee_name(c) in ("update", "smp_biases_loop", "smp_biases_script_loop",
                                                           "calc_scripted_forces")]
    adds = [w for w, tgt in lvalue_writes(f) if "total_bias_energy" in X.key(tgt, f) and classify_write(f, w, tgt) == "add"]
    if not users:
        raise AnalysisBroken("calc_biases: bias update sites not found")
    if not adds:
        # the energies are no longer summed: that is a violation of the property, not a broken analysis
        rep.add("C08-R2", "energy|summed", f.loc(), "calc_biases() does not add the energy of each active bias to total_bias_energy",
                False, detail="the reported energy is not the sum over the biases", func=f.q)
        return
    def loop_head(n):
        """condition of the outermost loop enclosing n (a loop over all objects dominates what
        follows it through its header), or n itself."""
        head = n
        for a in f.ancestors(n):
            if a["k"] == "ForStmt" and X.kids(a):
                cs = a.get("c", [])
                if len(cs) >= 2 and cs[1] is not None:
                    head = cs[1]
        return head
    reset_heads = [loop_head(r) for r in resets]
    for u in users + adds:
        uh = loop_head(u) if any(a["k"] == "ForStmt" for a in f.ancestors(u)) else u
        ok = any(f.cfg.dominates(r, u) or f.cfg.dominates(r, uh) for r in reset_heads) and any(f.cfg.dominates(z, u) for z in zero)
        rep.add("C08-R2", "calc_biases|%s" % X.text(u, f)[:70], f.loc(u),
                "`%s` is %s by the reset of the bias forces and of total_bias_energy" % (
                    X.text(u, f)[:60], "preceded" if ok else "NOT preceded on every path"), ok, func=f.q)
    # reset_bias_force really resets both accumulators
    rb = F.one("colvar::reset_bias_force")
    got = set()
    for c in X.calls(rb):
        if X.callee_name(c) == "reset":
            r = X.receiver(c)
            if r is not None:
                got.add(X.key(r, rb))
    rep.add("C08-R2", "reset_bias_force|both", rb.loc(), "reset_bias_force() resets %s" % sorted(got),
            {"this.fb", "this.fb_actual"} <= got, func=rb.q)
    # the loop that resets ranges over all variables, the loops that update/sum range over the active biases
    conts = {}
    for c in resets + users + adds:
        for a in f.ancestors(c):
            if a["k"] == "ForStmt":
                init = X.kids(a)[0]
                conts[X.text(c, f)[:40]] = X.text(init, f)
                break
    rep.count("calc_biases_loops", len(conts))


def _local_carries(f, arg, res, what):
    """Is one multiplicative factor of `arg` a local variable that is initialised with an expression containing `what`
    and afterwards only ever scaled (`*=`)?  (`factor = n; factor *= grid value; add(force * factor)`)"""
    decls = {d["d"]: d for d in f.walk() if d["k"] == "VarDecl" and d.get("st") == "local"}
    for x in f.walk(arg):
        if x["k"] != "DeclRefExpr" or x.get("d") not in decls:
            continue
        d = decls[x["d"]]
        init = [k for k in X.kids(d) if k is not None]
        if not init or what not in X.key(init[0], f, res):
            continue
        ws = [w for w, t in lvalue_writes(f) if X.strip(t)["k"] == "DeclRefExpr" and X.strip(t).get("d") == x["d"]]
        if all(w.get("op") == "*=" for w in ws):
            return True
    return False


def r3(F, rep):
    rep.rule("C08-R3", "colvarbias::communicate_forces adds nothing when apply_force is off, and its two add sites "
                       "(extended-Lagrangian bypass or not) pass the same expression, which contains time_step_factor")
    f = F.one("colvarbias::communicate_forces")
    res = X.const_locals(f)
    adds = [c for c in X.calls(f) if X.callee_name(c) in ("add_bias_force", "add_bias_force_actual_value")]
    if len(adds) < 2:
        raise AnalysisBroken("communicate_forces: add sites not found")
    keys = {}
    for c in adds:
        facts, gs = C.guard_facts(f, c, res)
        ok = any(t[0] == "true" and "f_cvb_apply_force" in t[1] for t in facts)
        rep.add("C08-R3", "apply-guard|%s" % X.callee_name(c), f.loc(c),
                "%s is %s by is_enabled(f_cvb_apply_force)" % (X.callee_name(c), "dominated" if ok else "NOT dominated"),
                ok, detail="a non-biasing bias (applyBias off, histogram) must contribute nothing", func=f.q)
        k = X.key(X.call_args(c)[0], f, res)
        keys[X.callee_name(c)] = k
        has = "time_step_factor" in k or _local_carries(f, X.call_args(c)[0], res, "time_step_factor")
        rep.add("C08-R3", "tsf|%s" % X.callee_name(c), f.loc(c),
                "force passed to %s %s time_step_factor" % (X.callee_name(c), "is scaled by" if has else "does NOT contain"),
                has, detail="a bias evaluated every n steps must apply n times its force", func=f.q)
    same = len(set(keys.values())) == 1
    rep.add("C08-R3", "siblings-agree", f.loc(), "both add sites pass %s" % ("the same expression" if same else
                                                                              "DIFFERENT expressions: %s" % keys), same, func=f.q)
    # sibling accumulators really add
    for q, fld in (("colvar::add_bias_force", "this.fb"), ("colvar::add_bias_force_actual_value", "this.fb_actual")):
        g = F.one(q)
        ws = [(w, t) for w, t in lvalue_writes(g) if X.key(t, g) == fld]
        ok = len(ws) == 1 and classify_write(g, ws[0][0], ws[0][1]) == "add"
        rep.add("C08-R3", "adder|%s" % q, g.loc(), "%s adds its argument to %s" % (q, fld), ok, func=q)


def r4(F, rep):
    rep.rule("C08-R4", "awake schedule: in calc_colvars biases and variables with a time-step factor > 1 are woken by the "
                       "same test (step_absolute() % factor == 0) and put to sleep otherwise; only enabled objects enter "
                       "the active lists")
    f = F.one("colvarmodule::calc_colvars")
    res = X.const_locals(f)
    sites = []
    for c in X.calls(f):
        if X.callee_name(c) in ("enable", "disable") and X.call_args(c):
            a = X.strip(X.call_args(c)[0])
            if a["k"] == "DeclRefExpr" and a.get("n", "").endswith("_awake"):
                facts, gs = C.guard_facts(f, c, res)
                mod = [t for t in facts if t[0] == "cmp" and "% " in t[2] and "step_absolute" in t[2]]
                gt1 = [t for t in facts if t[0] == "cmp" and t[1] == ">" and t[3] == "1"]
                sites.append((c, a["n"], X.callee_name(c), mod, gt1))
    if len(sites) < 4:
        raise AnalysisBroken("calc_colvars: awake toggles not found")
    import re
    shapes = set()
    for c, feat, nm, mod, gt1 in sites:
        want = "==" if nm == "enable" else "!="
        ok = bool(gt1) and any(t[1] == want and t[3] == "0" for t in mod)
        shape = tuple(sorted("step_absolute() % factor" if t[2].startswith("(colvarmodule::step_absolute() % ") else t[2] for t in mod))
        shapes.add(shape)
        rep.add("C08-R4", "%s|%s" % (feat, nm), f.loc(c), "%s(%s) happens exactly when factor > 1 and step %% factor %s 0" % (
            nm, feat, want) if ok else "%s(%s) is not tied to step %% factor %s 0 under factor > 1" % (nm, feat, want), ok, func=f.q)
    rep.add("C08-R4", "same-test", f.loc(), "biases and variables use the same wake-up test", len(shapes) == 1,
            detail="shapes: %s" % sorted(shapes), func=f.q)
    # active lists
    for q, lst in (("colvarmodule::calc_colvars", "variables_active"), ("colvarmodule::calc_biases", "biases_active")):
        g = F.one(q)
        pushes = [c for c in X.calls(g) if X.callee_name(c) == "push_back" and X.mentions(
            X.receiver(c) or c, lambda x: x["k"] in ("CXXMemberCallExpr",) and X.callee_name(x) == lst)]
        ok = bool(pushes)
        for c in pushes:
            facts, gs = C.guard_facts(g, c)
            ok = ok and any(t[0] == "true" and "is_enabled(" in t[1] for t in facts)
        rep.add("C08-R4", "active-list|%s" % lst, g.loc(), "only enabled objects are appended to %s()" % lst, ok,
                detail="a disabled or sleeping object must contribute nothing", func=q)
    # putting an object to sleep works by disable(awake) releasing the reference that awake holds on active: an object
    # with a time-step factor must therefore start with awake enabled, or the first disable() is a no-op and the object
    # stays active (with its n-fold force) until the first multiple of the factor
    for q, feat in (("colvarbias::init", "f_cvb_awake"), ("colvar::init", "f_cv_awake")):
        g = F.one(q)
        ens = [c for c in X.calls(g) if X.callee_name(c) == "enable" and c.get("cq") == "colvardeps::enable" and X.call_args(c) and
               feat in X.key(X.call_args(c)[0], g)]
        ok = False
        for c in ens:
            # conditions of the enclosing ifs only: earlier error returns of the initialisation are not conditions on
            # the object's configuration
            from .rules_c03 import structural_guards
            facts = set()
            for cn, pol in structural_guards(g, c):
                if cn is not None:
                    facts |= C.facts(g, cn, pol, X.const_locals(g))
            # unconditional, or for every factor > 1
            flags = [t for t in facts if "time_step_factor" in str(t)]
            other = [t for t in facts if "time_step_factor" not in str(t) and t[0] in ("true", "false")]
            ok = ok or (not other and (not flags or any((t[0] == "cmp" and t[1] == ">" and t[3] == "1") or (t[0] == "cmp" and t[1] == ">=" and t[3] == "2") for t in flags)))
        rep.add("C08-R4", "initially-awake|%s" % q, g.loc(ens[0]) if ens else g.loc(), "%s enables %s for every object with a time-step factor > 1: %s" % (q, feat, ok), ok,
                detail="a run that starts at a step that is not a multiple of the factor applies the n-fold force at every step up to the first multiple", func=q)


def r5(F, rep):
    rep.rule("C08-R5", "colvar::update_forces_energy resets the applied force before use and returns zero energy "
                       "without adding anything when the variable is inactive")
    f = F.one("colvar::update_forces_energy")
    resets = [c for c in X.calls(f) if X.callee_name(c) == "reset" and X.receiver(c) is not None and X.key(X.receiver(c), f) == "this.f"]
    adds = [(w, t) for w, t in lvalue_writes(f) if X.key(t, f) == "this.f" and classify_write(f, w, t) == "add"]
    ok = bool(resets) and bool(adds) and all(any(f.cfg.dominates(r, w) for r in resets) for w, t in adds)
    rep.add("C08-R5", "reset-first", f.loc(), "f.reset() dominates the %d additions to f" % len(adds), ok, func=f.q)
    ok2 = True
    for w, t in adds:
        facts, gs = C.guard_facts(f, w)
        if not any((t2[0] == "true" and "f_cv_active" in t2[1]) or (t2[0] == "false" and "! " in t2[1] and "f_cv_active" in t2[1])
                   or (t2[0] in ("true", "nz") and "is_enabled(colvardeps::f_cv_active)" in t2[1]) for t2 in facts):
            ok2 = False
    rep.add("C08-R5", "inactive-adds-nothing", f.loc(), "every addition to f is dominated by the variable being active", ok2, func=f.q)


def r6(F, rep):
    rep.rule("C08-R6", "the accumulated bias energy is handed to the engine (proxy->add_energy(total_bias_energy)) only "
                       "after every producer has run: no scripted-force callback or bias update can follow the hand-off "
                       "within the step function, and calc_biases zeroes the sum before any producer")
    f = F.one("colvarmodule::update_colvar_forces")
    hand = [c for c in X.calls(f) if X.callee_name(c) == "add_energy" and X.call_args(c)
            and "total_bias_energy" in X.key(X.call_args(c)[0], f)]
    prods = [c for c in X.calls(f) if X.callee_name(c) in ("calc_scripted_forces", "communicate_forces", "update")
             and c.get("cq", "").split("::")[0] in ("colvarmodule", "colvarbias")]
    if not hand:
        rep.add("C08-R6", "handoff|update_colvar_forces", f.loc(), "update_colvar_forces() never hands total_bias_energy to proxy->add_energy()",
                False, detail="the engine applies bias forces whose energy is never reported", func=f.q)
    for h in hand:
        late = [p for p in prods if f.cfg.can_reach(h, p)]
        rep.add("C08-R6", "handoff|update_colvar_forces", f.loc(h),
                "add_energy(total_bias_energy) is %s" % ("the last use of the sum" if not late else
                                                         "followed by a producer: %s" % X.text(late[0], f)[:60]),
                not late, detail="energy added by the scripted-force callback (cv addenergy) would never reach the engine",
                func=f.q)
        # every path to a normal return passes the hand-off
        comm = [c for c in X.calls(f) if c.get("cq") == "colvar::communicate_forces"]
        ok = all(f.cfg.dominates(h, c) for c in comm) if comm else False
        rep.add("C08-R6", "handoff|before-atoms", f.loc(h), "the energy hand-off dominates the communication of forces to the atoms", ok, func=f.q)
    scr = [c for c in X.calls(f) if X.callee_name(c) == "calc_scripted_forces"]
    rep.add("C08-R6", "producers", f.loc(), "%d scripted-force producer call(s) in update_colvar_forces" % len(scr), len(scr) >= 1, func=f.q)


def r7(F, rep):
    rep.rule("C08-R7", "every force a variable generates itself for its atoms is an impulse over its own time-step factor: in "
                       "colvar::update_forces_energy() and update_extended_Lagrangian() each contribution written to the applied "
                       "force f that is not a bias accumulator (fb, fb_actual, which the biases have scaled already) -- the hidden "
                       "Jacobian force, the coupling-spring force -- carries time_step_factor, in the expression itself or through "
                       "a following `f *= time_step_factor` on every path")
    n = 0
    for q in ("colvar::update_forces_energy", "colvar::update_extended_Lagrangian"):
        f = F.one(q)
        ws = []
        for w, t in lvalue_writes(f):
            if X.key(t, f) != "this.f" or w.get("op") not in ("=", "+=", "-="):
                continue
            rhs = X.kids(w)[1] if w["k"] in ("BinaryOperator", "CompoundAssignOperator") else (X.call_args(w)[1] if len(X.call_args(w)) > 1 else None)
            if rhs is None:
                continue
            k = X.re_strip(X.key(rhs, f, X.const_locals(f)))
            if "this.fb" in k:
                continue      # bias accumulators, scaled by the biases (C08-R3)
            ws.append((w, k))
        scalers = [w for w, t in lvalue_writes(f) if X.key(t, f) == "this.f" and w.get("op") == "*=" and
                   "time_step_factor" in X.key((X.kids(w)[1] if w["k"] != "CXXOperatorCallExpr" else X.call_args(w)[1]), f)]
        for w, k in ws:
            n += 1
            inline = "time_step_factor" in k
            later = any(f.cfg.can_reach(w, s) and not f.cfg.exits_from(w, avoiding=[s]) for s in scalers)
            rep.add("C08-R7", "%s|%s" % (q, k[:50]), f.loc(w), "%s: contribution `%s` to the applied force %s" % (
                q, k[:60], "carries time_step_factor" if inline else ("is scaled by a following f *= time_step_factor" if later else "is NOT scaled by time_step_factor")),
                inline or later, detail="with timeStepFactor n the atoms would receive 1/n of this impulse", func=q)
    if n < 2:
        raise AnalysisBroken("C08-R7: contributions of the variable to its applied force not found")


def r8(F, rep):
    from .rules_c07 import r6 as remembered_force
    remembered_force(F, rep, "C08-R8")


def run(F, rep, tier):
    from .rules_c12 import work_lists
    work_lists(F, rep, "C08-R9")   # the awake set of this step, not of an earlier one, is what gets computed
    r8(F, rep)
    r1(F, rep)
    r2(F, rep)
    r3(F, rep)
    r4(F, rep)
    r5(F, rep)
    r6(F, rep)
    r7(F, rep)
