"""Fact extraction driver, cache and in-memory model.

The deciding step of every check starts here: the current working tree of the
repository (default /repo, override with CVVERIF_REPO or --repo) is parsed by
tool/cvfacts with the real build flags, one JSON per translation unit, and the
result is merged into a Facts object (functions keyed by mangled name, class
hierarchy, enums).  Cached per unit by content hash, so every run reflects the
sources as they are now.
"""
import glob
import hashlib
import json
import os
import pickle
import shlex
import subprocess
import sys
import time
from concurrent.futures import ThreadPoolExecutor

VERIF = os.path.dirname(os.path.dirname(os.path.abspath(__file__)))
TOOL = os.path.join(VERIF, "tool", "cvfacts")
RESOURCE_DIR = "/usr/lib/llvm-14/lib/clang/14.0.6"
FALLBACK_FLAGS = ["-std=c++11", "-Wall", "-pedantic", "-fopenmp"]

CONFIGS = {
    # name -> (flags removed, flags added)
    "default": ([], []),
    "noomp": (["-fopenmp"], []),
    "debug": ([], ["-DCOLVARS_DEBUG=1"]),
}


class AnalysisBroken(Exception):
    """Raised when the analysis itself cannot run (exit code 2)."""


def repo_root():
    return os.environ.get("CVVERIF_REPO", "/repo").rstrip("/")


def cache_dir():
    d = os.environ.get("CVVERIF_CACHE")
    if not d:
        base = os.environ.get("XDG_CACHE_HOME") or "/var/tmp"
        d = os.path.join(base, "cvverif-cache")
    os.makedirs(d, exist_ok=True)
    return d


def _sha(*parts):
    h = hashlib.sha256()
    for p in parts:
        if isinstance(p, str):
            p = p.encode()
        h.update(p)
        h.update(b"\0")
    return h.hexdigest()


def _file_digest(path):
    with open(path, "rb") as f:
        return hashlib.sha256(f.read()).hexdigest()


def build_flags():
    """Flags of the real build (from ninja's compilation database of /repo/_build
    when present), reduced to the language/preprocessor-relevant ones."""
    flags = None
    bdir = "/repo/_build"
    if os.path.exists(os.path.join(bdir, "build.ninja")):
        try:
            out = subprocess.run(["ninja", "-C", bdir, "-t", "compdb"], capture_output=True,
                                 text=True, timeout=60).stdout
            db = json.loads(out)
            for e in db:
                if e.get("file", "").endswith("/src/colvarmodule.cpp") and e.get("command"):
                    toks = shlex.split(e["command"])
                    flags = [t for t in toks if t.startswith(("-std=", "-D", "-U", "-fopenmp", "-W", "-pedantic"))
                             and not t.startswith("-Wno-error")]
                    break
        except Exception:
            flags = None
    src = "compdb" if flags else "fallback"
    if not flags:
        flags = list(FALLBACK_FLAGS)
    return flags, src


def units(root=None, extra=False):
    root = root or repo_root()
    u = sorted(p for p in glob.glob(os.path.join(root, "src", "*.cpp"))
               if not os.path.basename(p).startswith("."))
    u += sorted(glob.glob(os.path.join(root, "misc_interfaces", "stubs", "*.cpp")))
    if extra:
        u += sorted(glob.glob(os.path.join(root, "tests", "unittests", "*.cpp")))
        u += sorted(glob.glob(os.path.join(root, "tests", "functional", "*.cpp")))
        u += sorted(glob.glob(os.path.join(root, "colvartools", "*.cpp")))
    return u


def _headers_digest(root):
    hs = sorted(glob.glob(os.path.join(root, "src", "*.h")) +
                glob.glob(os.path.join(root, "misc_interfaces", "stubs", "*.h")) +
                glob.glob(os.path.join(root, "colvartools", "*.h")))
    h = hashlib.sha256()
    for p in hs:
        h.update(os.path.relpath(p, root).encode())
        with open(p, "rb") as f:
            h.update(hashlib.sha256(f.read()).digest())
    return h.hexdigest()


def extract(config="default", root=None, extra=False, verbose=False):
    """Run the extractor on every unit (cached).  Returns (list of json paths, info)."""
    root = root or repo_root()
    if not os.path.exists(TOOL):
        raise AnalysisBroken("extractor %s not built (run MANIFEST.setup_cmd)" % TOOL)
    base_flags, flag_src = build_flags()
    rem, add = CONFIGS[config]
    flags = [f for f in base_flags if f not in rem and f != "-DNDEBUG"] + add
    flags += ["-UNDEBUG", "-I" + os.path.join(root, "src"),
              "-I" + os.path.join(root, "misc_interfaces", "stubs"),
              "-resource-dir", RESOURCE_DIR, "-Wno-everything"]
    tool_d = _file_digest(TOOL)
    hdr_d = _headers_digest(root)
    us = units(root, extra)
    if len(us) < 40:
        raise AnalysisBroken("only %d translation units found under %s" % (len(us), root))
    cdir = cache_dir()
    jobs = []
    for u in us:
        key = _sha(tool_d, hdr_d, os.path.relpath(u, root), _file_digest(u), " ".join(
            f.replace(root, "$ROOT") for f in flags))
        jobs.append((u, os.path.join(cdir, key + ".json")))

    def run(job):
        u, out = job
        if os.path.exists(out):
            try:
                os.utime(out)
            except OSError:
                pass
            return (u, out, True, "")
        tmp = out + ".%d.tmp" % os.getpid()
        cmd = [TOOL, "-o", tmp, "-root", root + "/", u, "--"] + flags
        p = subprocess.run(cmd, capture_output=True, text=True)
        if p.returncode != 0 or not os.path.exists(tmp):
            if os.path.exists(tmp):
                os.unlink(tmp)
            return (u, None, False, p.stderr[-2000:])
        os.replace(tmp, out)
        return (u, out, False, "")

    t0 = time.time()
    with ThreadPoolExecutor(max_workers=min(16, os.cpu_count() or 4)) as ex:
        res = list(ex.map(run, jobs))
    failed = [(u, err) for (u, out, hit, err) in res if out is None]
    if failed:
        raise AnalysisBroken("units failed to parse: " + "; ".join(
            "%s: %s" % (u, err.strip().splitlines()[-1] if err.strip() else "?") for u, err in failed))
    info = {
        "root": root, "config": config, "flags_source": flag_src,
        "flags": [f.replace(root, "$ROOT") for f in flags],
        "units": len(us), "cache_hits": sum(1 for r in res if r[2]),
        "extract_s": round(time.time() - t0, 2),
        "key": _sha(*[os.path.basename(out) for (_, out, _, _) in res]),
    }
    _prune_cache(cdir)
    return [out for (_, out, _, _) in res], info


def _prune_cache(cdir, keep=3000):
    try:
        fs = [os.path.join(cdir, f) for f in os.listdir(cdir)]
        if len(fs) <= keep:
            return
        fs.sort(key=lambda p: os.path.getmtime(p))
        for p in fs[:len(fs) - keep]:
            try:
                os.unlink(p)
            except OSError:
                pass
    except OSError:
        pass


# --------------------------------------------------------------------------------
# in-memory model


class Func:
    __slots__ = ("m", "q", "name", "cls", "file", "line", "endline", "virtual", "const",
                 "static", "ctor", "dtor", "overrides", "params", "body", "inits", "cfg_raw",
                 "types", "inst", "lambda_in", "is_lambda", "tu", "ret", "_nodes", "_parent",
                 "_cfg", "internal", "_const_locals_cache")

    def __init__(self, d, types, tu):
        self._const_locals_cache = None
        self.m = d["m"]
        self.q = d["q"]
        self.name = d["name"]
        self.cls = d.get("cls")
        self.file = d["file"]
        self.line = d["line"]
        self.endline = d.get("endline", d["line"])
        self.virtual = d.get("virtual", False)
        self.const = d.get("const", False)
        self.static = d.get("static", False)
        self.ctor = d.get("ctor", False)
        self.dtor = d.get("dtor", False)
        self.overrides = d.get("overrides", [])
        self.params = d.get("params", [])
        self.body = d.get("body")
        self.inits = d.get("inits", [])
        self.cfg_raw = d.get("cfg")
        self.types = types
        self.inst = d.get("inst", False)
        self.lambda_in = d.get("lambda_in")
        self.is_lambda = d.get("lambda", False)
        self.internal = d.get("internal", False)
        self.ret = d.get("ret", -1)
        self.tu = tu
        self._nodes = None
        self._parent = None
        self._cfg = None

    # ---- tree helpers
    def _index(self):
        nodes, parent = {}, {}
        stack = []
        roots = []
        for it in self.inits:
            if it.get("init"):
                roots.append(it["init"])
        if self.body:
            roots.append(self.body)
        for r in roots:
            stack.append((r, None))
        while stack:
            n, p = stack.pop()
            nodes[n["i"]] = n
            parent[n["i"]] = p
            for c in n.get("c", ()):
                if c is not None:
                    stack.append((c, n["i"]))
        self._nodes, self._parent = nodes, parent

    @property
    def nodes(self):
        if self._nodes is None:
            self._index()
        return self._nodes

    def parent(self, n):
        if self._parent is None:
            self._index()
        p = self._parent.get(n["i"])
        return self._nodes[p] if p is not None else None

    def ancestors(self, n):
        p = self.parent(n)
        while p is not None:
            yield p
            p = self.parent(p)

    def walk(self, n=None):
        """Pre-order walk in source order."""
        roots = []
        if n is None:
            for it in self.inits:
                if it.get("init"):
                    roots.append(it["init"])
            if self.body:
                roots.append(self.body)
        else:
            roots = [n]
        stack = list(reversed(roots))
        while stack:
            x = stack.pop()
            yield x
            for c in reversed(x.get("c", ())):
                if c is not None:
                    stack.append(c)

    def type(self, n):
        t = n.get("t", -1)
        return self.types[t] if isinstance(t, int) and t >= 0 else ""

    def typestr(self, idx):
        return self.types[idx] if isinstance(idx, int) and idx >= 0 else ""

    def loc(self, n=None):
        return "%s:%d" % (self.file, n["l"] if n is not None and n.get("l") else self.line)

    @property
    def cfg(self):
        if self._cfg is None:
            from . import cfg as _cfg
            self._cfg = _cfg.CFG(self)
        return self._cfg

    def __repr__(self):
        return "<Func %s>" % self.q


class Facts:
    def __init__(self):
        self.funcs = {}      # mangled -> Func
        self.by_q = {}       # qualified name -> [Func]
        self.classes = {}    # qname -> dict
        self.enums = {}      # qname -> dict
        self.globals = {}
        self.skipped = {}    # file -> set((b,e))
        self.info = {}
        self.method_decl = {}   # mangled -> (class qname, method dict)
        self._subs = None
        self._overriders = None

    def add_tu(self, d):
        types = d["types"]
        tu = d["tu"]
        for f in d["functions"]:
            if f["m"] in self.funcs:
                continue
            fn = Func(f, types, tu)
            self.funcs[fn.m] = fn
            self.by_q.setdefault(fn.q, []).append(fn)
        for c in d["classes"]:
            q = c["q"]
            if q in self.classes:
                continue
            c = dict(c)
            c["fields"] = [dict(f, t=types[f["t"]] if f["t"] >= 0 else "") for f in c["fields"]]
            c["key"] = q
            self.classes[q] = c
            for m in c["methods"]:
                self.method_decl.setdefault(m["m"], (q, m))
        for e in d["enums"]:
            self.enums.setdefault(e["q"], e)
        for g in d["globals"]:
            g = dict(g, t=types[g["t"]] if g["t"] >= 0 else "")
            self.globals.setdefault(g["q"], g)
        for f, b, e in d["skipped"]:
            self.skipped.setdefault(f, set()).add((b, e))

    # ---- hierarchy
    def subclasses(self, q, strict=False):
        if self._subs is None:
            direct = {}
            for c in self.classes.values():
                for b in c["bases"]:
                    direct.setdefault(b, set()).add(c["q"])
            self._subs = direct
        out, stack = set(), [q]
        while stack:
            x = stack.pop()
            for s in self._subs.get(x, ()):
                if s not in out:
                    out.add(s)
                    stack.append(s)
        if not strict:
            out.add(q)
        return out

    def bases(self, q, strict=False):
        out, stack = [], [q]
        seen = set()
        while stack:
            x = stack.pop(0)
            c = self.classes.get(x)
            if not c:
                continue
            for b in c["bases"]:
                if b not in seen:
                    seen.add(b)
                    out.append(b)
                    stack.append(b)
        return ([] if strict else [q]) + out

    def overriders(self, m):
        """All methods (mangled) that override m, transitively."""
        if self._overriders is None:
            ov = {}
            for mm, (cq, md) in self.method_decl.items():
                for o in md.get("overrides", ()):
                    ov.setdefault(o, set()).add(mm)
            self._overriders = ov
        out, stack = set(), [m]
        while stack:
            x = stack.pop()
            for s in self._overriders.get(x, ()):
                if s not in out:
                    out.add(s)
                    stack.append(s)
        return out

    def find_method(self, cls, name):
        """Resolve method `name` as seen from class `cls` (most-derived first);
        returns list of Func with bodies (all overloads of the nearest definer)."""
        definers = []
        for c in self.bases(cls):
            cd = self.classes.get(c)
            if cd and any(m["n"] == name for m in cd["methods"]):
                definers.append(c)
        # final overriders: drop definers that are bases of another definer
        final = [c for c in definers if not any(c != d and c in self.bases(d, strict=True) for d in definers)]
        out = []
        for c in final:
            for m in self.classes[c]["methods"]:
                if m["n"] == name and m["m"] in self.funcs:
                    out.append(self.funcs[m["m"]])
        return out

    def func_q(self, q):
        return self.by_q.get(q, [])

    def one(self, q):
        fs = self.by_q.get(q, [])
        if len(fs) != 1:
            raise AnalysisBroken("anchor %s: expected exactly one definition, found %d" % (q, len(fs)))
        return fs[0]

    def need(self, q):
        fs = self.by_q.get(q, [])
        if not fs:
            raise AnalysisBroken("anchor %s vanished (no definition found)" % q)
        return fs


def load(config="default", root=None, extra=False):
    paths, info = extract(config, root, extra)
    cdir = cache_dir()
    merged = os.path.join(cdir, "merged-" + info["key"][:40] + ".pkl")
    t0 = time.time()
    F = None
    if os.path.exists(merged):
        try:
            with open(merged, "rb") as f:
                F = pickle.load(f)
            os.utime(merged)
        except Exception:
            F = None
    if F is None:
        F = Facts()
        for p in paths:
            with open(p) as f:
                F.add_tu(json.load(f))
        tmp = merged + ".%d.tmp" % os.getpid()
        try:
            sys.setrecursionlimit(100000)
            with open(tmp, "wb") as f:
                pickle.dump(F, f, protocol=pickle.HIGHEST_PROTOCOL)
            os.replace(tmp, merged)
        except Exception:
            if os.path.exists(tmp):
                os.unlink(tmp)
    info["load_s"] = round(time.time() - t0, 2)
    info["functions"] = len(F.funcs)
    info["classes"] = len(F.classes)
    F.info = info
    return F
