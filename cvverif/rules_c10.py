"""C10  Invalid parameter values are reported as errors and are never fatal.

R1  every integer division / modulo has a non-zero proof for its divisor
R2  sizes derived from user floats are range-checked before allocation
R3  conditionally allocated members are not dereferenced unguarded
R4  failed objects are rolled back
R5  exceptions are contained (shared with C11-R7)
R6  a rejected configuration leaves nothing behind for the next one
R7  a vector whose length is chosen by the user is validated (or sized) before it is indexed by a foreign bound
"""
from . import expr as X
from . import cond as C
from . import callgraph
from .common import load_table
from .facts import AnalysisBroken

ERROR_FUNCS = ("colvarmodule::error", "colvarmodule::error_static", "colvarmodule::fatal_error")


def is_error_call(n):
    return n["k"] in ("CallExpr", "CXXMemberCallExpr") and n.get("cq") in ERROR_FUNCS


def is_bug_error(n):
    """cvm::error(..., COLVARS_BUG_ERROR): an internal-consistency assertion, not the
    rejection of a user-supplied value."""
    args = X.call_args(n)
    if len(args) >= 2:
        a = X.strip(args[1])
        if a["k"] == "CXXDefaultArgExpr" and X.kids(a):
            a = X.strip(X.kids(a)[0])
        return a["k"] == "DeclRefExpr" and a.get("n") in ("COLVARS_BUG_ERROR", "COLVARS_NOT_IMPLEMENTED", "COLVARS_MEMORY_ERROR")
    return False


def member_root(n):
    """For this.nx[i] / this.nx.at(i) / (*this).x -> the MemberExpr on `this`; else None."""
    n = X.strip(n)
    while True:
        if n["k"] == "CXXOperatorCallExpr" and n.get("op") == "[]":
            n = X.strip(X.call_args(n)[0])
            continue
        if n["k"] == "ArraySubscriptExpr":
            n = X.strip(X.kids(n)[0])
            continue
        break
    if n["k"] == "MemberExpr" and n.get("dk") == "Field":
        b = X.strip(X.kids(n)[0]) if X.kids(n) else None
        if b is not None and b["k"] == "CXXThisExpr":
            return n
    return None


def lvalue_writes(f):
    """Yield (node, target expr) for every syntactic write in f: assignments,
    compound assignments, ++/--, arguments bound to non-const references,
    address-of (conservative), non-const member calls on the object."""
    for n in f.walk():
        k = n["k"]
        if k in ("BinaryOperator", "CompoundAssignOperator") and n["op"] in (
                "=", "+=", "-=", "*=", "/=", "%=", "|=", "&=", "^=", "<<=", ">>="):
            yield n, X.kids(n)[0]
        elif k == "UnaryOperator" and n["op"] in ("++", "--", "post++", "post--"):
            yield n, X.kids(n)[0]
        elif k == "UnaryOperator" and n["op"] == "&":
            yield n, X.kids(n)[0]
        elif k in ("CallExpr", "CXXMemberCallExpr", "CXXOperatorCallExpr", "CXXConstructExpr",
                   "CXXTemporaryObjectExpr"):
            args = X.call_args(n)
            for a in n.get("refargs", ()):
                if a < len(args):
                    yield n, args[a]
            if k == "CXXOperatorCallExpr" and n.get("op") in ("=", "+=", "-=", "*=", "/=", "++", "--") and args:
                yield n, args[0]
            if k == "CXXMemberCallExpr" and not n.get("cconst") and not n.get("cstatic"):
                r = X.receiver(n)
                if r is not None and X.strip(r)["k"] != "CXXThisExpr":
                    yield n, r


def norm(q):
    """Qualified name with template argument lists removed (table matching)."""
    out, depth = [], 0
    for ch in q:
        if ch == "<":
            depth += 1
        elif ch == ">":
            depth -= 1
        elif depth == 0:
            out.append(ch)
    return "".join(out)


class R1:
    rid = "C10-R1"
    text = ("every integer-typed / and % has a proof that its divisor is non-zero: literal, structural, "
            "edge-dominating guard, init-phase validation of a member, guarded callers, or derived boolean guard")

    def __init__(self, F, rep):
        self.F, self.rep = F, rep
        self.cg = callgraph.get(F)
        self._init_phase = {}
        self._family_funcs = {}
        tab = load_table("c10_exempt.json")
        self.exempt = {(e["function"], e["divisor"]): e["reason"] for e in tab["R1"]}
        self.exempt_edges = {(e["caller"], e["callee"]): e["reason"] for e in tab["R1_init_edges"]}
        self.used_exempt = set()

    # ---- class families and init phase
    def family(self, cls):
        fam = set(self.F.bases(cls)) | self.F.subclasses(cls)
        return fam

    def family_funcs(self, cls):
        if cls not in self._family_funcs:
            fam = self.family(cls)
            self._family_funcs[cls] = [g for g in self.F.funcs.values() if g.cls in fam]
        return self._family_funcs[cls]

    def init_phase(self, cls):
        """Methods of the class family reachable (through calls that stay inside the
        family) from constructors and functions named init/init_*/setup/parse_*."""
        if cls in self._init_phase:
            return self._init_phase[cls]
        fam = self.family(cls)
        roots = []
        for g in self.family_funcs(cls):
            if g.ctor or g.name == "init" or g.name.startswith("init_") or g.name.startswith("parse_") \
                    or g.name in ("setup", "init_from_colvars", "init_from_boundaries"):
                roots.append(g.m)

        def follow(caller, call, tgt):
            # stay on the same object: implicit/explicit `this` receiver, static
            # helpers of the family, and base-class/delegating constructor calls
            t = self.F.funcs.get(tgt)
            if t is None or t.cls not in fam:
                return False
            if (norm(caller.q), norm(t.q)) in self.exempt_edges:
                self.used_exempt.add((norm(caller.q), norm(t.q)))
                return False
            if call["k"] == "CXXMemberCallExpr":
                r = X.receiver(call)
                return r is not None and X.strip(r)["k"] == "CXXThisExpr"
            if call["k"] in ("CXXConstructExpr", "CXXTemporaryObjectExpr"):
                for it in caller.inits:
                    if it.get("init") is not None and it["init"]["i"] == call["i"] and (
                            "base" in it or it.get("delegating")):
                        return True
                return False
            if call["k"] == "LambdaExpr":
                return True
            return t.static or t.cls is None

        s = self.cg.reachable_ctx(roots, follow)
        self._init_phase[cls] = s
        return s

    # ---- proof search
    def prove(self, f, e, site, extra, depth=0):
        """Returns a reason string if `e` is proven non-zero at `site`, else None."""
        if depth > 6:
            return None
        e0 = e
        e = X.strip(e)
        k = e["k"]
        res = self.res
        v = C._lit(e)
        if v is not None:
            return "literal %r" % v if v != 0 else None
        if k == "UnaryExprOrTypeTraitExpr":
            return "sizeof" if e.get("v") else None
        # facts from dominating guards at the site
        facts, gs = C.guard_facts(f, site, res)
        facts = facts | extra
        ke = X.key(e, f, res)
        if ("nz", ke) in facts or ("pos", ke) in facts:
            w = self.intervening_write(f, e, site, gs)
            if w is None:
                return "guard dominates: %s != 0" % X.text(e, f)
            return None
        if k == "BinaryOperator" and e["op"] == "*":
            a, b = X.kids(e)
            ra = self.prove(f, a, site, extra, depth + 1)
            rb = self.prove(f, b, site, extra, depth + 1) if ra else None
            return "product of non-zero factors (%s; %s)" % (ra, rb) if ra and rb else None
        if k == "BinaryOperator" and e["op"] == "+":
            a, b = X.kids(e)
            for p, q in ((a, b), (b, a)):
                v = C._lit(p)
                if v is not None and v > 0 and f.type(X.strip(q, explicit=False)).replace("const ", "").startswith("unsigned"):
                    return "positive literal + unsigned"
            return None
        if k == "BinaryOperator" and e["op"] == "/":
            a, b = X.kids(e)
            va = C._lit(a)
            b = X.strip(b)
            if va is not None and va > 0 and b["k"] == "BinaryOperator" and b["op"] == "+":
                p, q = X.kids(b)
                for x, one in ((p, q), (q, p)):
                    if C._lit(one) == 1 and ("cmp", "<", X.key(x, f, res), repr(va)) in facts:
                        return "K/(x+1) with x < K"
            return None
        if k == "ConditionalOperator":
            c, a, b = e["c"]
            fa = C.facts(f, c, True, res)
            fb = C.facts(f, c, False, res)
            ra = self.prove(f, a, site, extra | fa, depth + 1)
            rb = self.prove(f, b, site, extra | fb, depth + 1) if ra else None
            return "both arms non-zero (%s; %s)" % (ra, rb) if ra and rb else None
        if k == "DeclRefExpr":
            st = e.get("st")
            if st == "local" and e.get("d") in self.all_locals:
                vd, init = self.all_locals[e["d"]]
                if init is not None and e["d"] not in self.reassigned:
                    r = self.prove(f, init, init, set(), depth + 1)
                    if r:
                        return "local initialised non-zero (%s)" % r
                return None
            if st == "param":
                return self.prove_param(f, e)
            if st in ("global", "static_member"):
                return self.prove_callers_guard(f, e, ke)
        mr = member_root(e)
        if mr is not None:
            r = self.prove_member(f, e, mr, site, facts)
            if r:
                return r
            return self.prove_callers_guard(f, e, ke)
        return None

    def intervening_write(self, f, e, site, gs):
        """A write to e that can reach the site without re-passing a guard."""
        ke = X.key(e, f, self.res)
        conds = [f.nodes[c] for c, _ in gs]
        for w, tgt in self.writes:
            if X.key(tgt, f, self.res) != ke:
                continue
            if w is site or any(a is w for a in ()):
                continue
            # the division itself may be a compound assignment to something else
            if f.cfg.can_reach(w, site, avoiding=conds):
                return w
        return None

    def prove_param(self, f, e, depth=0):
        if depth > 4:
            return None
        idx = None
        for i, p in enumerate(f.params):
            if p["d"] == e.get("d"):
                idx = i
        if idx is None:
            return None
        callers = self.cg.callers(f.m)
        if not callers:
            return None
        n_ok = 0
        for g, call in callers:
            args = X.call_args(call)
            if call["k"] == "CXXOperatorCallExpr":
                args = args[1:]
            if idx >= len(args):
                dv = f.params[idx].get("defv")
                if dv:
                    n_ok += 1
                    continue
                return None
            a = args[idx]
            if a["k"] == "CXXDefaultArgExpr":
                dv = f.params[idx].get("defv")
                v = dv if dv is not None else (C._lit(X.kids(a)[0]) if X.kids(a) else None)
            else:
                v = C._lit(a)
                sa = X.strip(a)
                if v is None and sa["k"] == "DeclRefExpr" and sa.get("st") == "param":
                    # forwarding wrapper: the caller's own parameter
                    if self.prove_param(g, sa, depth + 1):
                        n_ok += 1
                        continue
                    return None
            if v is None or v == 0:
                return None
            n_ok += 1
        return "all %d callers pass a non-zero constant" % n_ok

    def prove_callers_guard(self, f, e, ke):
        """(e) every caller of f calls it under a guard implying e != 0 (same storage:
        static/global key, or this.member with an implicit-this call)."""
        callers = self.cg.callers(f.m)
        if not callers:
            return None
        for g, call in callers:
            if ke.startswith("this."):
                r = X.receiver(call)
                if call["k"] != "CXXMemberCallExpr" or r is None or X.strip(r)["k"] != "CXXThisExpr":
                    return None
            facts, gs = C.guard_facts(g, call, X.const_locals(g))
            if ("nz", ke) not in facts and ("pos", ke) not in facts:
                return None
        return "all %d callers guard %s != 0" % (len(callers), X.text(e, f))

    def validations(self, cls, mq):
        """Init-phase validations of member mq (qualified field name): conditional
        edges whose taken side implies the member is zero/non-positive and that
        edge-dominate a cvm::error call."""
        out = []
        initp = self.init_phase(cls)
        for g in self.family_funcs(cls):
            if g.m not in initp:
                continue
            if not any(n["k"] == "MemberExpr" and n.get("q") == mq for n in g.walk()):
                continue
            res = X.const_locals(g)
            for n in g.walk():
                if not is_error_call(n):
                    continue
                for cid, pol in g.cfg.guards(n):
                    for fact in C.facts(g, g.nodes[cid], pol, res):
                        if fact[0] in ("z", "nonpos"):
                            # which member does the fact talk about?
                            if self._fact_mentions_member(g, g.nodes[cid], mq):
                                out.append((g, n, fact))
        return out

    def _fact_mentions_member(self, g, condnode, mq):
        return X.mentions(condnode, lambda x: x["k"] == "MemberExpr" and x.get("q") == mq)

    def prove_member(self, f, e, mr, site, facts):
        cls = f.cls
        if cls is None and f.lambda_in:
            par = self.F.funcs.get(f.lambda_in)
            cls = par.cls if par else None
        if cls is None:
            return None
        mq = mr["q"]
        # (f) boolean member guard derived from the divisor
        for fact in facts:
            if fact[0] == "true" and fact[1].startswith("this."):
                r = self.derived_bool(cls, fact[1][5:], mq)
                if r:
                    return r
        initp = self.init_phase(cls)
        vals = self.validations(cls, mq)
        if not vals:
            return None
        if f.m in initp:
            # the site function also runs during initialisation: every same-object
            # caller must either guard the call or itself run only after init
            why = self.callers_after_validation(f, cls, X.key(e, f, self.res), initp, 0, set())
            if not why:
                return None
        # all writes to the member happen in the init phase
        for g in self.family_funcs(cls):
            if g.m in initp:
                continue
            for w, tgt in lvalue_writes(g):
                r = member_root(tgt)
                if r is not None and r.get("q") == mq:
                    return None
        g, n, fact = vals[0]
        return "member %s validated at init: %s raises an error when %s(%s)" % (
            mq, g.q, fact[0], fact[1])

    def callers_after_validation(self, f, cls, ke, initp, depth, seen):
        if depth > 5 or f.m in seen:
            return None
        seen = seen | {f.m}
        callers = self.cg.callers(f.m)
        if not callers:
            return None
        for g, call in callers:
            r = X.receiver(call) if call["k"] == "CXXMemberCallExpr" else None
            same_obj = r is not None and X.strip(r)["k"] == "CXXThisExpr"
            if not same_obj:
                # called on another, already constructed object: its init is over
                continue
            facts, gs = C.guard_facts(g, call, X.const_locals(g))
            if ("nz", ke) in facts or ("pos", ke) in facts:
                continue
            if g.m not in initp:
                continue
            if not self.callers_after_validation(g, cls, ke, initp, depth + 1, seen):
                return None
        return "callers guard or run after init"

    def derived_bool(self, cls, bname, mq):
        """All assignments to this.<bname> in the class family have an RHS that, when
        true, implies member mq is non-zero."""
        n_assign = 0
        for g in self.family_funcs(cls):
            res = X.const_locals(g)
            for w, tgt in lvalue_writes(g):
                r = member_root(tgt)
                if r is None or r["n"] != bname:
                    continue
                if not (w["k"] == "BinaryOperator" and w["op"] == "="):
                    return None
                rhs = X.kids(w)[1]
                fs = C.facts(g, rhs, True, res)
                ok = any(t[0] in ("nz", "pos") and X.mentions(rhs, lambda x: x["k"] == "MemberExpr" and x.get("q") == mq)
                         for t in fs)
                if not ok:
                    return None
                n_assign += 1
        if n_assign:
            return "guarded by boolean %s, every assignment of which implies %s != 0" % (bname, mq)
        return None

    # ---- driver
    def run(self):
        F, rep = self.F, self.rep
        rep.rule(self.rid, self.text)
        seen = {}
        for f in F.funcs.values():
            if "/src/" not in f.file and "/stubs/" not in f.file:
                continue
            sites = []
            for x in f.walk():
                if x["k"] in ("BinaryOperator", "CompoundAssignOperator") and x["op"] in ("/", "%", "/=", "%="):
                    a, b = X.kids(x)
                    if X.is_int_type(f.type(X.strip(b, explicit=False))) and X.is_int_type(f.type(X.strip(a, explicit=False))):
                        sites.append(x)
            if not sites:
                continue
            self.res = X.const_locals(f)
            self.writes = list(lvalue_writes(f))
            self.all_locals = {}
            self.reassigned = set()
            for n in f.walk():
                if n["k"] == "VarDecl" and n.get("st") == "local":
                    cs = X.kids(n)
                    self.all_locals[n["d"]] = (n, cs[0] if len(cs) == 1 else None)
            for w, tgt in self.writes:
                t = X.strip(tgt)
                if t["k"] == "DeclRefExpr" and "d" in t:
                    self.reassigned.add(t["d"])
            for x in sites:
                rep.count("integer_div_sites")
                div = X.kids(x)[1]
                dkey = X.text(div, f)
                key = "%s|%s" % (f.q, dkey)
                reason = self.prove(f, div, x, set())
                if reason is None and (f.q, dkey) in self.exempt:
                    reason = "exempt: " + self.exempt[(f.q, dkey)]
                ok = reason is not None
                prev = seen.get(key)
                if prev is not None and (not prev[0] or ok):
                    continue
                seen[key] = (ok, f.loc(x), "integer division by `%s` without a non-zero proof" % dkey
                             if not ok else "divisor `%s` non-zero" % dkey,
                             reason or ("no dominating guard, init-phase validation, guarded caller or "
                                        "structural argument shows `%s` != 0 in `%s`" % (dkey, X.text(x, f))),
                             f.q)
        for key, (ok, loc, what, detail, fq) in seen.items():
            rep.add(self.rid, key, loc, what, ok, detail=detail, func=fq)



def constant_fields(F):
    """Class invariants of the analysed configuration: {`this.<field>` key: value} for integral data members whose
    every write in the library (assignments and constructor initialisers) stores the same integer literal."""
    vals = {}
    for f in F.funcs.values():
        if "/src/" not in f.file:
            continue
        for it in f.inits:
            if it.get("member") and it.get("init") is not None:
                v = C._lit(it["init"])
                vals.setdefault(it.get("mq") or it["member"], set()).add(v)
        for w, tgt in lvalue_writes(f):
            t = X.strip(tgt)
            if t["k"] == "MemberExpr" and t.get("dk") == "Field" and X.is_int_type(f.type(t)):
                if w["k"] == "BinaryOperator" and w["op"] == "=":
                    vals.setdefault(t["q"], set()).add(C._lit(X.kids(w)[1]))
                else:
                    vals.setdefault(t["q"], set()).add(None)
    return {q: next(iter(v)) for q, v in vals.items() if len(v) == 1 and None not in v}


class R2:
    """No hazardous use downstream of a non-returning rejection."""
    rid = "C10-R2"
    text = ("a value rejected by cvm::error() on a branch that does not leave the function is not used "
            "afterwards as a vector index, an integer divisor, an allocation size or the bound of a loop that subscripts")

    SIZE_METHODS = ("resize", "assign", "reserve")

    def __init__(self, F, rep):
        self.F, self.rep = F, rep

    def keys_in(self, f, n, res):
        """Keys of members/locals mentioned in expression n, plus vector roots whose
        .size() is taken."""
        ks, sizes = set(), set()
        recv = set()
        for x in f.walk(n):
            if x["k"] == "CXXMemberCallExpr" and X.callee_name(x) in ("size", "empty"):
                r = X.receiver(x)
                if r is not None:
                    recv.add(X.strip(r)["i"])
        for x in f.walk(n):
            if x["i"] in recv:
                continue
            if x["k"] == "MemberExpr" and x.get("dk") == "Field":
                ks.add(X.key(x, f, res))
            elif x["k"] == "DeclRefExpr" and x.get("st") in ("local", "param"):
                ks.add(X.key(x, f))
            elif x["k"] == "CXXMemberCallExpr" and X.callee_name(x) in ("size", "empty"):
                r = X.receiver(x)
                if r is not None:
                    sizes.add(X.key(r, f, res))
        return ks, sizes

    def slice_keys(self, f, n, res, defs, depth=0, seen=None):
        """Keys reachable by following local definitions backwards from n."""
        seen = seen if seen is not None else set()
        out = set()
        for x in f.walk(n):
            if x["k"] == "MemberExpr" and x.get("dk") == "Field":
                out.add(X.key(x, f, res))
            elif x["k"] == "DeclRefExpr" and x.get("st") in ("local", "param") and "d" in x:
                out.add(X.key(x, f))
                if x["d"] not in seen and depth < 6:
                    seen.add(x["d"])
                    for d in defs.get(x["d"], ()):
                        out |= self.slice_keys(f, d, res, defs, depth + 1, seen)
        return out

    def run(self):
        F, rep = self.F, self.rep
        rep.rule(self.rid, self.text)
        results = {}
        consts = constant_fields(F)
        for f in F.funcs.values():
            if "/src/" not in f.file:
                continue
            inv = set()
            if f.cls:
                for q, v in consts.items():
                    if q.rsplit("::", 1)[0] == f.cls:
                        inv.add(("eq", "this." + q.rsplit("::", 1)[1], repr(v)))
            errs = [n for n in f.walk() if is_error_call(n) and not is_bug_error(n)]
            if not errs or not f.cfg.ok:
                continue
            res = X.const_locals(f)
            # local definitions
            defs = {}
            for n in f.walk():
                if n["k"] == "VarDecl" and X.kids(n):
                    defs.setdefault(n["d"], []).append(X.kids(n)[0])
                elif n["k"] in ("BinaryOperator", "CompoundAssignOperator") and n["op"].endswith("=") and n["op"] not in ("==", "!=", "<=", ">="):
                    l = X.strip(X.kids(n)[0])
                    if l["k"] == "DeclRefExpr" and "d" in l:
                        defs.setdefault(l["d"], []).append(X.kids(n)[1])
            hazards = None
            for e in errs:
                gs = f.cfg.guards(e)
                if not gs:
                    continue
                # a rejection that contradicts a class invariant of this configuration is dead code
                # (e.g. the `m_num_threads != 1` branch of a build without a threading library)
                if inv and any(C.contradicts(C.facts(f, f.nodes[cid], pol, res), inv) for cid, pol in gs):
                    rep.count("rejection_sites_dead_by_invariant")
                    continue
                # does the error branch fall through to later code?
                rep.count("rejection_sites")
                per_guard = []
                known = set()
                for cid, pol in gs:
                    cn = f.nodes[cid]
                    ks, sizes = self.keys_in(f, cn, res)
                    fs = C.facts(f, cn, pol, res)
                    known |= fs
                    rng = any(t[0] in ("z", "nonpos", "neg") or (t[0] == "cmp" and t[1] in ("<", "<=", ">", ">="))
                              for t in fs)
                    # a vector is rejected as too short / mismatched only if the guard
                    # compares its size with another count, or says it is empty
                    deficient = set()
                    for v in sizes:
                        sk = "%s.size()" % v
                        for t in fs:
                            if t[0] in ("z", "nonpos") and t[1] == sk:
                                deficient.add(v)
                            elif t[0] == "cmp" and sk in (t[2], t[3]):
                                other = t[3] if t[2] == sk else t[2]
                                lit = other.lstrip("-").replace(".", "").isdigit()
                                op = t[1] if t[2] == sk else C.SWAP[t[1]]
                                if not lit and op in ("!=", "<", "<=", ">", ">="):
                                    deficient.add(v)
                                elif lit and op in ("<", "<=", "!="):
                                    deficient.add(v)
                    per_guard.append(((cid, pol), ks if rng else set(), deficient))
                # the error code returned by cvm::error is non-zero: `ec |= cvm::error()`
                par = f.parent(e)
                if par is not None and par["k"] in ("BinaryOperator", "CompoundAssignOperator") and par["op"] in ("|=", "="):
                    kx = X.key(X.kids(par)[0], f, res)
                    known |= {("nz", kx), ("true", kx), ("pos", kx)}

                def feasible(blk, i, _known=known):
                    b = f.cfg.blocks[blk]
                    if b.get("cond") is None or len(b["s"]) != 2 or b.get("tk") in ("SwitchStmt", "CXXTryStmt"):
                        return True
                    ef = C.facts(f, f.nodes[b["cond"]], i == 0, res)
                    return not C.contradicts(ef, _known)
                if not any(a or b for _, a, b in per_guard):
                    continue
                if hazards is None:
                    hazards = self.hazards(f, res, defs)
                for kind, node, keys, desc in hazards:
                    # context guards shared by the error and the later use are not the rejection
                    hg = set(f.cfg.guards(node))
                    v_range, v_size = set(), set()
                    for g, a, b in per_guard:
                        if g in hg:
                            continue
                        v_range |= a
                        v_size |= b
                    if kind == "index":
                        hit = keys & v_size
                    else:
                        hit = keys & v_range
                    if not hit:
                        continue
                    if not f.cfg.can_reach_feasible(e, node, feasible):
                        continue
                    # the hazard itself may be guarded against the rejected condition
                    if self.hazard_guarded(f, kind, node, hit, res):
                        continue
                    key = "%s|%s|%s" % (f.q, kind, desc)
                    results[key] = (False, f.loc(node),
                                    "%s `%s` is reachable after the rejection of %s reported at line %d without leaving the function"
                                    % ({"index": "vector index into", "div": "integer division by", "size": "allocation size", "bound": "bound of a subscripting loop"}[kind],
                                       desc, ", ".join(sorted(re_strip(h) for h in hit)), e.get("l", 0)),
                                    "error call at %s does not return; guards: %s" % (
                                        f.loc(e), "; ".join("%s is %s" % (X.text(f.nodes[c], f), p) for c, p in gs)), f.q)
            # every rejection site is an obligation (discharged unless a hazard was found)
        n_fail = 0
        for key, (ok, loc, what, detail, fq) in results.items():
            rep.add(self.rid, key, loc, what, ok, detail=detail, func=fq)
            n_fail += 1
        # summary obligation per function with rejections and no finding keeps the count honest
        for f in F.funcs.values():
            if "/src/" not in f.file:
                continue
            n = sum(1 for x in f.walk() if is_error_call(x))
            if n and not any(k.startswith(f.q + "|") for k in results):
                rep.add(self.rid, "%s|clean" % f.q, f.loc(), "%d error call(s): no rejected value is used hazardously afterwards" % n,
                        True, func=f.q)

    def hazards(self, f, res, defs):
        out = []
        for n in f.walk():
            k = n["k"]
            if k == "CXXOperatorCallExpr" and n.get("op") == "[]":
                args = X.call_args(n)
                if len(args) == 2 and "std::vector" in f.type(X.strip(args[0], explicit=False)):
                    out.append(("index", n, {X.key(args[0], f, res)}, X.text(args[0], f)))
            elif k in ("BinaryOperator", "CompoundAssignOperator") and n["op"] in ("/", "%", "/=", "%="):
                a, b = X.kids(n)
                if X.is_int_type(f.type(X.strip(b, explicit=False))) and X.is_int_type(f.type(X.strip(a, explicit=False))):
                    out.append(("div", n, self.slice_keys(f, b, res, defs), X.text(b, f)))
            elif k == "CXXMemberCallExpr" and X.callee_name(n) in self.SIZE_METHODS:
                args = X.call_args(n)
                r = X.receiver(n)
                if args and r is not None:
                    out.append(("size", n, self.slice_keys(f, args[0], res, defs),
                                "%s.%s(%s)" % (X.text(r, f), X.callee_name(n), X.text(args[0], f))))
            elif k == "CXXNewExpr" and n.get("array"):
                cs = X.kids(n)
                if cs:
                    out.append(("size", n, self.slice_keys(f, cs[0], res, defs), "new[%s]" % X.text(cs[0], f)))
            elif k == "ForStmt" and n["c"][1] is not None and n["c"][-1] is not None:
                # the bound of a loop whose body subscripts something with the loop variable's range
                body = n["c"][-1]
                if any(x["k"] == "ArraySubscriptExpr" or (x["k"] == "CXXOperatorCallExpr" and x.get("op") == "[]") for x in f.walk(body)):
                    c = X.strip(n["c"][1])
                    # only bounds that are plain integer arithmetic on variables (a bound that is itself a size()/length() call is
                    # re-evaluated against the container on every iteration)
                    if c["k"] == "BinaryOperator" and c.get("op") in ("<", "<=", "!=") and \
                            not any(x["k"] in ("CallExpr", "CXXMemberCallExpr") for x in f.walk(X.kids(c)[1])):
                        out.append(("bound", n["c"][1], self.slice_keys(f, X.kids(c)[1], res, defs), X.text(X.kids(c)[1], f)))
        return out

    def hazard_guarded(self, f, kind, node, hit, res):
        facts, gs = C.guard_facts(f, node, res)
        if kind == "index":
            args = X.call_args(node)
            ki = X.key(args[1], f, res)
            kv = X.key(args[0], f, res)
            for t in facts:
                if t[0] == "cmp" and t[1] == "<" and t[2] == ki and t[3] == "%s.size()" % kv:
                    return True
                if t[0] in ("pos", "nz", "true") and t[1] == "%s.size()" % kv and X.strip(args[1])["k"] == "IntegerLiteral" and X.strip(args[1])["v"] == 0:
                    return True
        return False


def re_strip(s):
    import re
    return re.sub(r"#\d+", "", s)




# --------------------------------------------------------------------------------
THROWING_CALLS = ("std::stod", "std::stoi", "std::stol", "std::stoul", "std::stof", "std::stoll", "std::stoull",
                  "std::stold")


class R5:
    """Exceptions are contained: the hosts of the library do not catch."""
    rid = "C10-R5"
    text = ("every explicit throw and every call of a throwing standard function (std::sto*, .at(), substr(pos, ..) with a "
            "positive literal pos that no dominating test of the string's size covers) is enclosed -- lexically or in "
            "every caller up the call graph -- by a try whose handler catches it and reports through cvm::error")

    def __init__(self, F, rep, rid=None, only_funcs=None):
        self.F, self.rep = F, rep
        self.cg = callgraph.get(F)
        if rid:
            self.rid = rid
        self.only = only_funcs

    @staticmethod
    def covers(tname, fam):
        """does a handler for `tname` catch an exception of family fam ("runtime", "logic", None = unknown)?"""
        import re as _re
        if tname == "..." or _re.search(r"\bexception\b", tname) and "runtime" not in tname and "logic" not in tname:
            return True
        if "runtime_error" in tname:
            return fam == "runtime"
        if "logic_error" in tname or "invalid_argument" in tname or "out_of_range" in tname or "length_error" in tname:
            return fam == "logic"
        return False

    def handler_ok(self, f, tr, fam=None):
        """try statement whose handlers catch the exception family and report."""
        hs = X.kids(tr)[1:]
        for h in hs:
            ct = h.get("ct", -1)
            tname = f.typestr(ct) if ct >= 0 else "..."
            if not self.covers(tname, fam):
                continue
            reports = X.mentions(h, lambda x: x["k"] in ("CallExpr", "CXXMemberCallExpr") and (
                x.get("cq") in ERROR_FUNCS))
            rethrows = X.mentions(h, lambda x: x["k"] == "CXXThrowExpr")
            if reports and not rethrows:
                return True
        return False

    def lexically_contained(self, f, n, fam=None):
        cur = n
        for a in f.ancestors(n):
            if a["k"] == "CXXTryStmt":
                ks = X.kids(a)
                if ks and ks[0] is cur and self.handler_ok(f, a, fam):
                    return a
            cur = a
        return None

    def contained(self, f, n, depth=0, seen=None, fam=None):
        seen = seen or set()
        if self.lexically_contained(f, n, fam) is not None:
            return "try in %s" % f.q
        if depth > 5 or f.m in seen:
            return None
        seen = seen | {f.m}
        callers = self.cg.callers(f.m)
        if not callers:
            return None
        why = []
        for g, call in callers:
            r = self.contained(g, call, depth + 1, seen, fam)
            if not r:
                return None
            why.append(r)
        return "all callers: " + "; ".join(sorted(set(why)))

    def run(self):
        F, rep = self.F, self.rep
        rep.rule(self.rid, self.text)
        res = {}
        for f in F.funcs.values():
            if "/src/" not in f.file:
                continue
            if self.only is not None and f.m not in self.only:
                continue
            for n in f.walk():
                kind = None
                if n["k"] == "CXXThrowExpr":
                    kind = "throw"
                elif n["k"] == "CallExpr" and n.get("cq") in THROWING_CALLS:
                    kind = n["cq"]
                elif n["k"] == "CXXMemberCallExpr" and X.callee_name(n) == "at" and "std::" in n.get("rc", ""):
                    kind = "at()"
                elif n["k"] == "CXXMemberCallExpr" and X.callee_name(n) == "substr" and "basic_string" in n.get("rc", "") and X.call_args(n):
                    pos = C._lit(X.call_args(n)[0])
                    if pos is not None and pos > 0 and X.receiver(n) is not None:
                        # throws std::out_of_range when pos > size(): fine if a size test dominates the call
                        rk = X.key(X.receiver(n), f, X.const_locals(f))
                        facts, _ = C.guard_facts(f, n, X.const_locals(f))
                        sizes = ("%s.size()" % rk, "%s.length()" % rk)
                        covered = False
                        for t in facts:
                            if t[0] == "cmp" and t[2] in sizes:
                                try:
                                    lim = float(t[3])
                                except ValueError:
                                    continue
                                if (t[1] == ">=" and lim >= pos) or (t[1] == ">" and lim >= pos - 1) or (t[1] == "==" and lim >= pos):
                                    covered = True
                        if not covered:
                            kind = "substr(%d, ..)" % pos
                        else:
                            res["%s|substr(%d, ..)|guarded" % (f.q, pos)] = (
                                True, f.loc(n), "substr(%d, ..) on `%s` is dominated by a test of its size" % (pos, X.re_strip(rk)), "", f.q)
                if not kind:
                    continue
                # family of what is thrown: std::sto*, at(), substr() throw logic errors (invalid_argument / out_of_range)
                fam = "logic"
                if kind == "throw":
                    tk = X.key(X.kids(n)[0], f) if X.kids(n) else ""
                    fam = "runtime" if "runtime_error" in tk else ("logic" if ("logic_error" in tk or "invalid_argument" in tk or "out_of_range" in tk) else None)
                why = self.contained(f, n, fam=fam)
                what = X.text(X.kids(n)[0], f)[:80] if kind == "throw" and X.kids(n) else kind
                key = "%s|%s|%s" % (f.q, kind, what)
                prev = res.get(key)
                ok = why is not None
                if prev is not None and (not prev[0] or ok):
                    continue
                res[key] = (ok, f.loc(n), ("%s is contained (%s)" % (kind, why)) if ok else
                            "%s can propagate out of the library: no enclosing try reports it through cvm::error" % kind,
                            "an exception leaving src/ is std::terminate in every host", f.q)
        for key, (ok, loc, what, detail, fq) in res.items():
            rep.add(self.rid, key, loc, what, ok, detail=detail, func=fq)


def r6(F, rep):
    """Scratch configuration text must not survive a rejected configuration."""
    rep.rule("C10-R6", "a rejected configuration leaves nothing behind for the next one: every string member of colvarmodule that "
                       "parse_config() consumes and clears on its success path (auto-generated configuration text appended by "
                       "the parsers it calls) is also cleared unconditionally before the first parser runs, so an early error "
                       "return cannot leak it into the next parse_config() call")
    f = F.one("colvarmodule::parse_config")
    clears = {}
    for c in X.calls(f):
        if c["k"] == "CXXMemberCallExpr" and X.callee_name(c) == "clear" and X.receiver(c) is not None:
            r = X.strip(X.receiver(c))
            if r["k"] == "MemberExpr" and r.get("dk") == "Field" and X.kids(r) and X.strip(X.kids(r)[0])["k"] == "CXXThisExpr":
                clears.setdefault(r["n"], []).append(c)
    parsers = [c for c in X.calls(f) if c.get("cq", "").startswith("colvarmodule::parse_") and c.get("cq") != f.q]
    if not parsers:
        raise AnalysisBroken("parse_config: calls of the parsers not found")
    # members that are also appended to outside parse_config (by the parsers)
    n = 0
    for m, cs in sorted(clears.items()):
        appended = [g.q for g in F.funcs.values() if "/src/" in g.file and g.q != f.q and any(
            (w["k"] == "CXXOperatorCallExpr" and w.get("op") == "+=" or (w["k"] == "CXXMemberCallExpr" and X.callee_name(w) in ("append", "push_back")))
            and X.mentions(t, lambda y: y["k"] == "MemberExpr" and y.get("q") == "colvarmodule::" + m) for w, t in lvalue_writes(g))]
        if not appended:
            continue
        n += 1
        entry = [c for c in cs if not f.cfg.real_guards(c) and all(f.cfg.dominates(c, p) for p in parsers)]
        rep.add("C10-R6", "parse_config|%s" % m, f.loc(cs[0]), "`%s` (appended to by %s) is cleared before any parser runs: %s" % (
            m, sorted(set(appended))[:3], bool(entry)), bool(entry),
            detail="text generated while parsing a configuration that was then rejected would be parsed with the next configuration", func=f.q)
    if n < 1:
        raise AnalysisBroken("parse_config: no consumed-and-cleared scratch member found (extra_conf expected)")


# ------------------------------------------------------------------------------------------------ R7
def r7(F, rep):
    from .sizeflow import SizeFlow, E as SE, Q as SQ, O as SO, norm, sizes
    from .rules_c12 import upper_bound
    rep.rule("C10-R7", "user-sized vectors: where a function fills a std::vector from a keyword (get_keyval: an empty vector takes "
                       "as many values as the user wrote, a non-empty one keeps its length) and then subscripts it with an index "
                       "bounded by something other than its own size, a forward dataflow over the function's CFG on the abstract "
                       "length {empty, ==bound, other} (transfer: fill, resize/assign(bound), clear, escapes; edge filters: "
                       "comparisons of size() with the bound or zero) proves the length equals the bound at the subscript")
    exempt = load_table("c10_exempt.json").get("R7", {})
    seen = set()
    n = 0
    for f in F.funcs.values():
        if "/src/" not in f.file or f.body is None or f.m in seen or f.is_lambda:
            continue
        tg = {}
        for c in X.calls(f):
            if (c.get("cq") or "") != "colvarparse::get_keyval":
                continue
            a = X.call_args(c)
            if len(a) < 3 or "vector<" not in f.typestr(X.strip(a[2]).get("t")):
                continue
            tg.setdefault(X.re_strip(X.key(a[2], f)), []).append(c)
        if not tg:
            continue
        seen.add(f.m)
        if not f.cfg.ok:
            raise AnalysisBroken("C10-R7: no CFG for %s" % f.q)
        flows = {}
        for u in f.walk():
            if not (u["k"] == "CXXOperatorCallExpr" and u.get("op") == "[]"):
                continue
            a = X.call_args(u)
            vk = X.re_strip(X.key(a[0], f))
            if vk not in tg or not any(f.cfg.can_reach(c, u) for c in tg[vk]):
                continue
            lit = C._lit(X.strip(a[1]))
            ub = upper_bound(F, f, a[1]) if lit is None else None
            if lit is None and ub is None:
                continue            # index with no recognisable bound: not an instance of this rule
            if ub is not None and ub == vk + ".size()":
                continue
            n += 1
            what = ub if ub is not None else str(lit)
            key = "%s|%s[<%s]" % (f.q, vk, what)
            if f.q in exempt:
                rep.add("C10-R7", key, f.loc(u), "%s: exempt -- %s" % (f.q, exempt[f.q]), True, func=f.q)
                continue
            # entry state: a member is empty (fresh object) or has the length validated by an earlier run of the same
            # function; a local starts as its declaration says
            root = X.strip(a[0])
            if root["k"] == "DeclRefExpr" and root.get("st") == "local":
                entry = {SE}
                for d in f.walk():
                    if d["k"] == "VarDecl" and d.get("d") == root.get("d") and X.kids(d):
                        init = X.strip(X.kids(d)[0])
                        ia = X.call_args(init) if init["k"] == "CXXConstructExpr" else []
                        if ia and ub is not None and norm(f, ia[0]) == ub:
                            entry = {SQ}
                        elif ia:
                            entry = {SE, SQ, SO}
            else:
                entry = {SE, SQ}
            cands = [None]
            if lit is not None:
                # literal index c: any comparison of size() with a literal n > c establishes the needed length
                cands = sorted({C._lit(X.strip(k)) for m in f.walk() if m["k"] == "BinaryOperator" for k in X.kids(m)
                                if isinstance(C._lit(X.strip(k)), int) and C._lit(X.strip(k)) > lit}) or [lit + 1]
            best = None
            for cand in cands:
                fk = (vk, ub, cand)
                if fk not in flows:
                    flows[fk] = SizeFlow(F, f, vk, ub, entry, literal=cand)
                    flows[fk].learn_flags()
                st = sizes(flows[fk].state_at(u))
                if best is None or len(st - {SQ}) < len(best[0] - {SQ}):
                    best = (st, flows[fk])
            st, fl = best
            bad = sorted(st - {SQ})
            ok = not bad
            say = {SE: "may still be empty", SO: "may have a user-chosen length different from the bound"}
            rep.add("C10-R7", key, f.loc(u), "%s: `%s[...]` indexed below %s after being filled from a keyword; at this point its length %s" % (
                f.q, vk, what, "equals the bound on every path" if ok else " / ".join(say[b] for b in bad)), ok,
                detail="; ".join(fl.notes[:3]) or "no validation of the length against the bound lies on every path from the keyword to this subscript", func=f.q)
    # atom groups filled from index groups in the same function and subscripted under another group's size
    import re as _re
    ng = 0
    for f in F.funcs.values():
        if "/src/" not in f.file or f.body is None or f.is_lambda:
            continue
        filled = {}
        for c in X.calls(f):
            if c["k"] == "CXXMemberCallExpr" and X.callee_name(c) == "add_index_group" and X.receiver(c) is not None:
                r = X.strip(X.receiver(c))
                if r["k"] == "DeclRefExpr" and r.get("st") == "local":
                    filled.setdefault(X.re_strip(X.key(r, f)), []).append(c)
        if len(filled) < 2:
            continue
        flows = {}
        for u in f.walk():
            if not (u["k"] == "CXXOperatorCallExpr" and u.get("op") == "[]"):
                continue
            a = X.call_args(u)
            vk = X.re_strip(X.key(a[0], f))
            if vk not in filled:
                continue
            ub = upper_bound(F, f, a[1])
            if ub is None:
                continue
            mo = _re.match(r"^\((.*) - \d+\)$", ub)
            base = mo.group(1) if mo else ub
            other = [g for g in filled if g != vk and base == g + ".size()"]
            if not other:
                continue
            ng += 1
            fk = (vk, base)
            if fk not in flows:
                flows[fk] = SizeFlow(F, f, vk, base, {SE})
                flows[fk].track_flag(u)
                flows[fk].learn_flags()
            st = sizes(flows[fk].state_at(u))
            bad = sorted(st - {SQ})
            say = {SE: "may be empty", SO: "may have a different number of atoms"}
            rep.add("C10-R7", "%s|%s[<%s]" % (f.q, vk, base), f.loc(u), "%s: group `%s` (filled from an index group) is indexed below %s; at this point it %s" % (
                f.q, vk, ub, "has as many atoms as that group on every path" if not bad else " / ".join(say[b] for b in bad)), not bad,
                detail="an index file that defines one group and not the other, or groups of different sizes, makes the subscript run past the end", func=f.q)
    if n < 30 or ng < 1:
        raise AnalysisBroken("C10-R7: only %d subscripts of keyword-filled vectors / %d of index-group-filled groups with a foreign bound found" % (n, ng))
    rep.count("keyword_vector_subscripts", n)


def r9(F, rep, rid="C10-R9"):
    rep.rule(rid, "the size that is checked is the size that is used: where a loop bounded by `V.size() - k` (unsigned: it wraps "
                  "when V is shorter than k) directly follows a rejection of the form `if (W.size() < m) return error`, W is V "
                  "and m > k -- a check copied from a sibling loop and left on the other container protects nothing")
    n = 0
    for f in sorted(F.funcs.values(), key=lambda g: g.q):
        if "/src/" not in f.file or f.body is None:
            continue
        for blk in f.walk():
            if blk["k"] != "CompoundStmt":
                continue
            ks = [c for c in blk.get("c", []) if c is not None]
            for prev, L in zip(ks, ks[1:]):
                if L["k"] != "ForStmt" or L["c"][1] is None or prev["k"] != "IfStmt":
                    continue
                bound = None
                for b in f.walk(L["c"][1]):
                    if b["k"] == "BinaryOperator" and b.get("op") == "-":
                        l, r = X.kids(b)
                        lit = C._lit(r)
                        kl = X.re_strip(X.key(l, f))
                        if lit is not None and lit > 0 and kl.endswith(".size()"):
                            bound = (kl, lit)
                if bound is None:
                    continue
                cs = prev["c"]
                cond = cs[1] if len(cs) == 4 else cs[0]
                body = cs[2] if len(cs) == 4 else cs[1]
                if cond is None or body is None or not any(x["k"] == "ReturnStmt" for x in f.walk(body)):
                    continue
                cc = X.strip(cond)
                if cc["k"] != "BinaryOperator" or cc.get("op") not in ("<", "<="):
                    continue
                wl = X.re_strip(X.key(X.kids(cc)[0], f))
                m = C._lit(X.kids(cc)[1])
                if not wl.endswith(".size()") or m is None:
                    continue
                n += 1
                need = bound[1] + (1 if cc["op"] == "<" else 0)
                ok = wl == bound[0] and m >= need
                rep.add(rid, "%s|%s" % (f.q, bound[0]), f.loc(prev), "%s: loop up to `%s - %d` follows a rejection of `%s %s %d`" % (f.q, bound[0], bound[1], wl, cc["op"], m), ok,
                        detail="with a shorter container the unsigned bound wraps around and the loop indexes far past the end (the configuration is not rejected: the host crashes)", func=f.q)
    if n < 2:
        raise AnalysisBroken("%s: only %d size rejections directly followed by a `size() - k` loop found" % (rid, n))


def run(F, rep, tier):
    r9(F, rep)
    from . import rules_c13
    rules_c13.r13(F, rep, "C10-R8")   # a rejected duplicate does not remove the original's registry entry
    r6(F, rep)
    r7(F, rep)
    R1(F, rep).run()
    R2(F, rep).run()
    R5(F, rep).run()
