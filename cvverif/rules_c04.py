"""C04  ABF stores the mean force per bin and applies its smoothed negative.

R1  force samples are accumulated only into a checked bin and only at eligible steps
R2  the biasing force is zero outside the grid or when applyBias is off: in update() the only writes to
    colvar_forces[] besides the reset are dominated by f_cvb_apply_force and samples->index_ok(bin), and the reset dominates them
R3  sample/bin timing: force_bin is refreshed from bin on every path through update() (after the accumulation),
    and overwritten at the top only for variables that report same-step forces
R4  update_system_force subtracts the previously applied ABF force exactly when the variable neither subtracts
    applied forces itself nor reports same-step total forces
R6  the gradient grid and the count grid it normalises by have one shape (shared with C15-R8)
R7  the bin of a value is found by rounding down (shared with C15-R9)
R8  what a bias takes off the one-step-late total force is the force it sent
R9  a bin index that lags one step behind starts out invalid
"""
from . import expr as X
from . import cond as C
from .facts import AnalysisBroken
from .rules_c10 import lvalue_writes


def r1(F, rep):
    rep.rule("C04-R1", "force samples enter the gradient grids only through acc_force() on a bin checked with index_ok "
                       "of the same index, at steps where can_accumulate_data() holds")
    f = F.one("colvarbias_abf::update")
    res = X.const_locals(f)
    accs = [c for c in X.calls(f) if X.callee_name(c) == "acc_force"]
    if len(accs) < 2:
        raise AnalysisBroken("colvarbias_abf::update: acc_force sites not found")
    for c in accs:
        K = X.key(X.call_args(c)[0], f, res)
        facts, gs = C.guard_facts(f, c, res)
        idx = any(t[0] == "true" and t[1].endswith("index_ok(%s)" % K) for t in facts)
        elig = ("true", "this.can_accumulate_data()") in facts
        recv = X.text(X.receiver(c), f)
        rep.add("C04-R1", "%s|index" % recv, f.loc(c), "%s.acc_force(%s) is %s by index_ok(%s)" % (
            recv, X.re_strip(K), "guarded" if idx else "NOT guarded", X.re_strip(K)), idx, func=f.q)
        rep.add("C04-R1", "%s|eligible" % recv, f.loc(c), "%s.acc_force() happens only when can_accumulate_data()" % recv, elig, func=f.q)
    # nobody else accumulates forces into the ABF gradient grids
    others = []
    for g in F.funcs.values():
        if g.cls == "colvarbias_abf" and g.q != f.q:
            for c in X.calls(g):
                if X.callee_name(c) == "acc_force":
                    others.append(g.q)
    rep.add("C04-R1", "single-accumulator", f.loc(), "acc_force() is called only from update() (others: %s)" % sorted(set(others)),
            not others, func=f.q)


def r2(F, rep):
    rep.rule("C04-R2", "the biasing force is zero outside the grid or when applyBias is off: in update() every write to "
                       "colvar_forces[] other than reset() is dominated by is_enabled(f_cvb_apply_force) and "
                       "samples->index_ok(bin), and by the reset loop")
    f = F.one("colvarbias_abf::update")
    res = X.const_locals(f)
    resets = [c for c in X.calls(f) if X.callee_name(c) == "reset" and X.receiver(c) is not None and "colvar_forces" in X.key(X.receiver(c), f)]
    writes = [(w, t) for w, t in lvalue_writes(f) if "colvar_forces" in X.key(t, f) and not (
        w["k"] == "CXXMemberCallExpr" and X.callee_name(w) == "reset") and not (w["k"] == "UnaryOperator")]
    if not resets or not writes:
        raise AnalysisBroken("colvarbias_abf::update: colvar_forces reset/write sites not found")
    # loop header of the reset dominates code after it
    heads = []
    for r in resets:
        h = r
        for a in f.ancestors(r):
            if a["k"] == "ForStmt" and a["c"][1] is not None:
                h = a["c"][1]
        heads.append(h)
    for w, t in writes:
        facts, gs = C.guard_facts(f, w, res)
        ap = any(t2[0] == "true" and "f_cvb_apply_force" in t2[1] for t2 in facts)
        ix = any(t2[0] == "true" and t2[1].endswith("index_ok(this.bin)") for t2 in facts)
        rs = any(f.cfg.dominates(h, w) for h in heads)
        rep.add("C04-R2", "write|%s" % X.text(w, f)[:50], f.loc(w),
                "`%s`: apply_force guard %s, index_ok(bin) guard %s, after reset %s" % (X.text(w, f)[:50], ap, ix, rs),
                ap and ix and rs, detail="a force would be applied outside the grid, or although applyBias is off", func=f.q)


def r3(F, rep):
    rep.rule("C04-R3", "each force sample is attributed to the bin occupied when the force was exerted: `force_bin = bin` is "
                       "executed on every path through update() and after the accumulation, and at the top of update() "
                       "force_bin[i] is overwritten only for variables with f_cv_total_force_current_step")
    f = F.one("colvarbias_abf::update")
    res = X.const_locals(f)
    whole = [w for w, t in lvalue_writes(f) if X.key(t, f) == "this.force_bin" and w["k"] in ("CXXOperatorCallExpr", "BinaryOperator")]
    elems = [w for w, t in lvalue_writes(f) if X.key(t, f).startswith("op[](this.force_bin") or X.key(t, f).startswith("this.force_bin[")]
    accs = [c for c in X.calls(f) if X.callee_name(c) == "acc_force" and "force_bin" in X.key(X.call_args(c)[0], f)]
    if not whole:
        # the refresh may have been moved to a helper of the class; if it is nowhere, that is the violation itself
        moved = [g.q for g in F.funcs.values() if g.cls == "colvarbias_abf" and g.q != f.q and
                 any(X.key(t, g) == "this.force_bin" and w["k"] in ("CXXOperatorCallExpr", "BinaryOperator") for w, t in lvalue_writes(g))]
        if moved:
            raise AnalysisBroken("colvarbias_abf::update: `force_bin = bin` moved to %s (rule needs to be re-anchored)" % moved)
        rep.add("C04-R3", "force_bin|unconditional", f.loc(), "`force_bin = bin` is executed NOWHERE in colvarbias_abf", False,
                detail="one-step-late force samples would always be attributed to a stale bin", func=f.q)
    for w in whole:
        uncond = not f.cfg.real_guards(w)
        rep.add("C04-R3", "force_bin|unconditional", f.loc(w), "`force_bin = bin` is executed %s" % (
            "on every path through update()" if uncond else "only under: %s" % "; ".join(
                "%s is %s" % (X.text(f.nodes[c], f)[:60], p) for c, p in f.cfg.real_guards(w))), uncond,
            detail="on steps where no sample is taken (first step of a run) the next sample would go to a stale bin", func=f.q)
        after = all(f.cfg.can_reach(a, w) and not f.cfg.can_reach(w, a) for a in accs) if accs else False
        rep.add("C04-R3", "force_bin|after-accumulation", f.loc(w), "`force_bin = bin` follows the accumulation into force_bin", after, func=f.q)
    for w in elems:
        facts, gs = C.guard_facts(f, w, res)
        ok = any(t[0] == "true" and "f_cv_total_force_current_step" in t[1] for t in facts)
        rep.add("C04-R3", "force_bin|same-step-only", f.loc(w), "force_bin[i] is overwritten at the top only under f_cv_total_force_current_step", ok, func=f.q)
    rep.add("C04-R3", "force_bin|elementwise-present", f.loc(), "%d element-wise same-step overwrite(s) of force_bin" % len(elems), len(elems) >= 1, func=f.q)


def r4(F, rep):
    rep.rule("C04-R4", "the ABF force that was being applied is subtracted from the measured total force exactly when the "
                       "variable does not already subtract applied forces and does not report same-step forces")
    f = F.one("colvarbias_abf::update_system_force")
    res = X.const_locals(f)
    ws = [(w, t) for w, t in lvalue_writes(f) if "system_force" in X.key(t, f) and w["k"] == "BinaryOperator" and w["op"] == "="]
    if len(ws) < 2:
        raise AnalysisBroken("update_system_force: assignments not found")
    for w, t in ws:
        rhs = X.kids(w)[1]
        # a subtraction of one of the bias's own force arrays (which one it must be is C04-R8)
        top = X.strip(rhs)
        subtracts = top["k"] in ("BinaryOperator", "CXXOperatorCallExpr") and top.get("op") == "-" and X.mentions(
            rhs, lambda x: x["k"] == "MemberExpr" and x.get("dk") == "Field" and "colvar_forces" in (x.get("n") or ""))
        facts, gs = C.guard_facts(f, w, res)
        not_sub = any(t2[0] == "false" and "f_cv_subtract_applied_force" in t2[1] for t2 in facts)
        not_cur = any(t2[0] == "false" and "f_cv_total_force_current_step" in t2[1] for t2 in facts)
        if subtracts:
            ok = not_sub and not_cur
            what = "the branch that subtracts the bias force is taken only when both features are off"
        else:
            ok = not (not_sub and not_cur)
            what = "the branch that takes the total force as is is not the both-features-off branch"
        rep.add("C04-R4", "branch|%s" % ("subtract" if subtracts else "plain"), f.loc(w), what, ok, func=f.q)


def r5(F, rep):
    rep.rule("C04-R5", "force sum and sample count advance together: colvar_grid_gradient::acc_force() adds the force to every "
                       "component of the bin (loop over mult) and increments the count grid for the same index, under no "
                       "condition other than the count grid being defined; value_output() divides the sum by the count of the "
                       "same index and only when that count is positive")
    fs = [f for f in F.funcs.values() if f.name == "acc_force" and (f.cls or "").startswith("colvar_grid_gradient")]
    if not fs:
        raise AnalysisBroken("colvar_grid_gradient::acc_force not found")
    f = fs[0]
    ix = f.params[0]
    adds = [(w, t) for w, t in lvalue_writes(f) if "data" in X.key(t, f) and w.get("op") in ("-=", "+=")]
    incs = [c for c in X.calls(f) if X.callee_name(c) == "incr_count"]
    ok_add = False
    for w, t in adds:
        loops = [a for a in f.ancestors(w) if a["k"] == "ForStmt"]
        ok_add = bool(loops) and "mult" in X.key(loops[0]["c"][1], f) and ("%s#%s" % (ix["n"], ix["d"])) in X.key(t, f)
    rep.add("C04-R5", "acc_force|sum", f.loc(adds[0][0]) if adds else f.loc(), "acc_force() accumulates into every component of bin `%s`: %s" % (ix["n"], ok_add), ok_add, func=f.q)
    ok_inc = False
    for c in incs:
        same = X.call_args(c) and X.key(X.call_args(c)[0], f) == "%s#%s" % (ix["n"], ix["d"])
        gs = [(X.re_strip(X.key(f.nodes[cid], f)), pol) for cid, pol in f.cfg.real_guards(c)]
        ok_inc = bool(same) and all("samples" in k and pol for k, pol in gs) and not any(a["k"] == "ForStmt" for a in f.ancestors(c))
    rep.add("C04-R5", "acc_force|count", f.loc(incs[0]) if incs else f.loc(), "acc_force() increments the count of the same bin exactly once (%d site), guarded only by the count grid being defined" % len(incs),
            ok_inc and len(incs) == 1, detail="the stored value would no longer be the mean of the samples", func=f.q)
    vs = [g for g in F.funcs.values() if g.name == "value_output" and (g.cls or "").startswith("colvar_grid_gradient")]
    if vs:
        g = vs[0]
        res = X.const_locals(g)
        divs = [n for n in g.walk() if n["k"] == "BinaryOperator" and n["op"] == "/"]
        ok = False
        for d in divs:
            facts, _ = C.guard_facts(g, d, res)
            pos = any(t[0] in ("pos",) or (t[0] == "cmp" and t[1] == ">" and t[3] in ("0", "0.0")) for t in facts)
            same = g.params and ("%s#%s" % (g.params[0]["n"], g.params[0]["d"])) in X.key(X.kids(d)[0], g)
            ok = ok or (pos and bool(same))
        rep.add("C04-R5", "value_output|mean", g.loc(divs[0]) if divs else g.loc(), "value_output() divides the sum of the bin by its positive count", ok, func=g.q)


def r6(F, rep):
    from .rules_c15 import companion_shape
    companion_shape(F, rep, "C04-R6")


def r7(F, rep):
    from .rules_c15 import r9
    r9(F, rep, "C04-R7")


def r8(F, rep, rid="C04-R8"):
    rep.rule(rid, "what a bias takes off the one-step-late total force is the force it sent: in communicate_forces() the "
                  "member that remembers the force of this step is assigned the product handed to add_bias_force(), "
                  "time_step_factor apart (same factors, the scaling factor of scaledBiasingForce included), and wherever a "
                  "bias subtracts one of its own force members from a variable's total_force() it is that remembered "
                  "member, never the live force array")
    from .rules_c01 import product_factors
    from .rules_c10 import lvalue_writes, member_root
    f = F.one("colvarbias::communicate_forces")
    res = X.const_locals(f)
    adds = [c for c in X.calls(f) if X.callee_name(c) in ("add_bias_force", "add_bias_force_actual_value")]
    if not adds:
        raise AnalysisBroken("%s: communicate_forces() hands no force to the variables" % rid)

    def fkeys(n):
        return sorted(k for k in (X.re_strip(X.key(x, f, res)) for x in product_factors(n, f, res)) if k != "this.time_step_factor" and k not in ("1", "1.0"))
    sent = {tuple(fkeys(X.call_args(c)[0])) for c in adds}
    live = None
    for c in adds:
        for x in product_factors(X.call_args(c)[0], f, res):
            mr = member_root(x)
            if mr is not None and x["k"] in ("CXXOperatorCallExpr",) and x.get("op") == "[]":
                live = mr["q"]
    mem = []
    for w, t in lvalue_writes(f):
        mr = member_root(t)
        ts = X.strip(t)
        if mr is None or w.get("op") != "=" or not (ts["k"] == "CXXOperatorCallExpr" and ts.get("op") == "[]") or mr["q"] == live:
            continue
        rhs = X.kids(w)[1] if w["k"] == "BinaryOperator" else X.call_args(w)[1]
        if live and any(member_root(x) is not None and member_root(x)["q"] == live for x in product_factors(rhs, f, res)):
            mem.append((w, mr["q"], tuple(fkeys(rhs))))
    if live is None or not mem:
        raise AnalysisBroken("%s: no member remembers the force sent by communicate_forces() (previous_colvar_forces expected)" % rid)
    for w, q, fk in mem:
        ok = len(sent) == 1 and fk in sent
        rep.add(rid, "communicate_forces|%s" % q.split("::")[-1], f.loc(w),
                "communicate_forces() remembers `%s` = %s; it sends %s (time_step_factor apart)" % (q.split("::")[-1], " * ".join(fk), " | ".join(" * ".join(x) for x in sorted(sent))), ok,
                detail="the difference (a scaling factor) stays in every force sample taken from a one-step-late total force: the stored "
                       "mean force is off by (factor - 1) times the bias force", func=f.q)
    memq = {q for w, q, fk in mem}
    n = 0
    for g in sorted(F.funcs.values(), key=lambda g: g.q):
        if "/src/" not in g.file or g.body is None or not g.cls or "colvarbias" not in g.cls:
            continue
        for b in g.walk():
            if not ((b["k"] == "BinaryOperator" and b.get("op") == "-") or (b["k"] == "CXXOperatorCallExpr" and b.get("op") == "-")):
                continue
            ops = X.kids(b) if b["k"] == "BinaryOperator" else X.call_args(b)
            if len(ops) != 2 or "total_force()" not in X.key(ops[0], g):
                continue
            used = {x["q"] for x in g.walk(ops[1]) if x["k"] == "MemberExpr" and x.get("dk") == "Field" and x.get("q") in (memq | {live})}
            if not used:
                continue
            n += 1
            ok = live not in used
            rep.add(rid, "%s|subtracts" % g.q, g.loc(b), "%s takes %s off total_force()" % (g.q, sorted(u.split("::")[-1] for u in used)), ok,
                    detail="the live force array is the unscaled force of the current evaluation, not what was sent at the step the total force belongs to", func=g.q)
    if n < 2:
        raise AnalysisBroken("%s: only %d subtraction(s) of a bias's own force from total_force() found (ABF and the TI estimator expected)" % (rid, n))


def r9_lag(F, rep, rid="C04-R9"):
    rep.rule(rid, "a bin that lags one step behind starts out invalid: where a bias accumulates into the bin stored in a member "
                  "index vector that its update function has not (unconditionally) assigned before the accumulation -- the bin "
                  "of the previous step, for one-step-late total forces -- every `assign(n, v)` that initialises that member "
                  "gives it a negative value, so that index_ok() rejects it until a previous step exists (a bias created in "
                  "the middle of a run otherwise credits its first force to bin 0); the sibling estimators agree on this")
    from .rules_c10 import member_root
    n = 0
    for f in sorted(F.funcs.values(), key=lambda g: g.q):
        if "/src/" not in f.file or f.body is None or not f.cls or "colvarbias" not in f.cls or not f.cfg.ok:
            continue
        lag = {}
        for c in X.calls(f):
            if c["k"] != "CXXMemberCallExpr" or X.callee_name(c) not in ("acc_force", "acc_value") or not X.call_args(c):
                continue
            a = X.strip(X.call_args(c)[0])
            if a["k"] != "MemberExpr" or a.get("dk") != "Field" or X.strip(X.kids(a)[0])["k"] != "CXXThisExpr":
                continue
            if "vector<int" not in f.typestr(a.get("t")):
                continue
            q = a["q"]
            ws = [w for w, t in lvalue_writes(f) if member_root(t) is not None and member_root(t)["q"] == q]
            def fills_before(w):
                # an unconditional element-wise fill in a loop that is itself executed before the accumulation
                loop = None
                for an in f.ancestors(w):
                    if an["k"] in ("IfStmt", "ConditionalOperator", "SwitchStmt"):
                        return False
                    if an["k"] == "ForStmt":
                        loop = an
                        break
                if loop is None:
                    return False
                head = loop["c"][1] if len(loop.get("c", [])) > 1 and loop["c"][1] is not None else None
                return head is not None and f.cfg.dominates(head, c)
            if any(f.cfg.dominates(w, c) or fills_before(w) for w in ws):
                continue
            lag.setdefault(q, c)
        for q, c in sorted(lag.items()):
            inits = []
            for g in F.funcs.values():
                if g.body is None or g.cls is None or g.cls not in F.bases(f.cls) and g.cls != f.cls:
                    continue
                for c2 in X.calls(g):
                    if c2["k"] == "CXXMemberCallExpr" and X.callee_name(c2) == "assign" and len(X.call_args(c2)) == 2:
                        r = X.receiver(c2)
                        rs = X.strip(r) if r is not None else None
                        if rs is not None and rs["k"] == "MemberExpr" and rs.get("q") == q and g.m != f.m:
                            inits.append((g, c2, X.re_strip(X.key(X.call_args(c2)[1], g)).strip("()")))
            if not inits:
                continue
            n += 1
            bad = [(g, c2, v) for g, c2, v in inits if not v.startswith("-")]
            name = q.split("::")[-1]
            rep.add(rid, "%s|%s" % (f.q, name), (bad[0][0].loc(bad[0][1]) if bad else inits[0][0].loc(inits[0][1])),
                    "%s accumulates into the bin `%s` of an earlier step; it is initialised with %s" % (f.q, name, sorted({v for g, c2, v in inits})), not bad,
                    detail="0 is a valid bin: a bias defined after the first step of a run, with one-step-late total forces, adds its first "
                           "sample to bin 0 whatever the variable's value was", func=f.q)
    if n < 2:
        raise AnalysisBroken("%s: only %d lagging bin members found (ABF force_bin and the TI estimator's ti_bin expected)" % (rid, n))


def run(F, rep, tier):
    from .rules_c15 import delegated_members
    delegated_members(F, rep, "C04-R10")   # whether the ABF grid is periodic is asked about the grid's own boundaries
    r9_lag(F, rep)
    r8(F, rep)
    r6(F, rep)
    r7(F, rep)
    r1(F, rep)
    r2(F, rep)
    r3(F, rep)
    r4(F, rep)
    r5(F, rep)
