"""Interpretation of branch conditions (P2 companion).

facts(f, cond_node, polarity) returns the set of atomic facts that hold on the
edge taken when the terminator condition `cond_node` evaluates to `polarity`.
clang's CFG gives one block per short-circuit operand; the terminator condition
of the block that evaluates the *last* operand is reported as the whole
expression, so `a && b` being false at that block means: a true, b false.

Fact forms (tuples):
  ("nz", key)  ("z", key)  ("pos", key)  ("nonpos", key)
  ("true", key) ("false", key)
  ("cmp", op, keyL, keyR)
"""
from . import expr as X

NEG = {"<": ">=", ">": "<=", "<=": ">", ">=": "<", "==": "!=", "!=": "=="}
SWAP = {"<": ">", ">": "<", "<=": ">=", ">=": "<=", "==": "==", "!=": "!="}


def _lit(n):
    n = X.strip(n)
    if n["k"] in ("IntegerLiteral", "CXXBoolLiteralExpr", "CharacterLiteral"):
        return int(n["v"])
    if n["k"] == "FloatingLiteral":
        return n["v"]
    if n["k"] == "UnaryOperator" and n["op"] == "-":
        v = _lit(X.kids(n)[0])
        return -v if v is not None else None
    if n["k"] == "DeclRefExpr" and n.get("v") is not None:
        return n.get("v")
    if n["k"] in ("GNUNullExpr", "CXXNullPtrLiteralExpr"):
        return 0
    return None


def _unsigned(f, n):
    t = f.type(X.strip(n, explicit=False)).replace("const ", "")
    return t.startswith("unsigned") or t == "bool"


def facts(f, n, pol, resolve=None):
    out = set()
    _facts(f, n, pol, out, resolve, True)
    return out


def _k(f, n, resolve):
    return X.key(n, f, resolve)


def _facts(f, n, pol, out, resolve, leaf, depth=0):
    n = X.strip(n)
    k = n["k"]
    if k == "DeclRefExpr" and resolve and n.get("d") in resolve and depth < 4:
        # a const local holding a condition (`bool const ok = a && b;`) is looked through: when it is true both
        # conjuncts are; nothing is known about which disjunct made it true, hence leaf=False
        init = X.strip(resolve[n["d"]])
        if init["k"] in ("BinaryOperator", "UnaryOperator", "CXXOperatorCallExpr", "CXXMemberCallExpr", "CallExpr", "DeclRefExpr", "MemberExpr"):
            kk = _k(f, n, None)
            out.add(("true", kk) if pol else ("false", kk))
            _facts(f, init, pol, out, resolve, False, depth + 1)
            return
    if k == "UnaryOperator" and n["op"] == "!":
        _facts(f, X.kids(n)[0], not pol, out, resolve, leaf)
        return
    if k == "BinaryOperator" and n["op"] in ("&&", "||"):
        l, r = X.kids(n)
        conj = n["op"] == "&&"
        if conj == pol:
            # a && b true  /  a || b false : both operands have value pol
            _facts(f, l, pol, out, resolve, False)
            _facts(f, r, pol, out, resolve, False)
        elif leaf:
            # a && b false at the block that evaluated b: a true, b false
            # a || b true  at the block that evaluated b: a false, b true
            _facts(f, l, not pol, out, resolve, False)
            _facts(f, r, pol, out, resolve, True)
        return
    if k == "CXXOperatorCallExpr" and n.get("op") == "!" and len(X.call_args(n)) == 1:
        _facts(f, X.call_args(n)[0], not pol, out, resolve, leaf)
        return
    if (k == "BinaryOperator" and n["op"] in NEG) or (
            k == "CXXOperatorCallExpr" and n.get("op") in NEG and len(X.call_args(n)) == 2):
        op = n["op"] if pol else NEG[n["op"]]
        l, r = X.kids(n) if k == "BinaryOperator" else X.call_args(n)
        lv, rv = _lit(l), _lit(r)
        if lv is not None and rv is None:
            l, r, lv, rv, op = r, l, rv, lv, SWAP[op]
        kl = _k(f, l, resolve)
        if rv is not None:
            if op == "!=" and rv == 0:
                out.add(("nz", kl))
            elif op == "==" and rv == 0:
                out.add(("z", kl))
                out.add(("nonpos", kl))
            elif op == "==" and rv != 0:
                out.add(("nz", kl))
                if rv > 0:
                    out.add(("pos", kl))
            elif op == ">" and rv >= 0:
                out.add(("pos", kl)); out.add(("nz", kl))
            elif op == ">=" and rv >= 1:
                out.add(("pos", kl)); out.add(("nz", kl))
            elif op == "<" and rv <= 0:
                out.add(("nz", kl)); out.add(("neg", kl))
            elif op == "<=" and rv <= 0:
                out.add(("nonpos", kl))
            elif op == "<" and rv <= 1:
                out.add(("nonpos", kl))
            out.add(("cmp", op, kl, repr(rv)))
        else:
            kr = _k(f, r, resolve)
            out.add(("cmp", op, kl, kr))
            # A < D with A unsigned  =>  D > 0 ;  D > A likewise
            if op == "<" and _unsigned(f, l):
                out.add(("pos", kr)); out.add(("nz", kr))
            if op == ">" and _unsigned(f, r):
                out.add(("pos", kl)); out.add(("nz", kl))
            if op == "==" :
                out.add(("eq", kl, kr))
        return
    # plain expression in boolean context
    kk = _k(f, n, resolve)
    t = f.type(n).replace("const ", "")
    if pol:
        out.add(("true", kk))
        if X.is_int_type(t) or t.endswith("*") or True:
            out.add(("nz", kk))
    else:
        out.add(("false", kk))
        out.add(("z", kk))
        out.add(("nonpos", kk) if (X.is_int_type(t) and t.startswith("unsigned")) else ("z", kk))


def guard_facts(f, site, resolve=None):
    """Union of facts on all edge-dominating guards of a site.  Returns
    (facts set, list of (cond node, polarity))."""
    gs = f.cfg.guards(site)
    out = set()
    if resolve is None:
        # a condition held in a const boolean local is the same guard: look through const locals by default
        resolve = getattr(f, "_const_locals_cache", None)
        if resolve is None:
            resolve = X.const_locals(f)
            try:
                f._const_locals_cache = resolve
            except AttributeError:
                pass
    for cid, pol in gs:
        out |= facts(f, f.nodes[cid], pol, resolve)
    return out, gs


def contradicts(edge_facts, known):
    """Cheap infeasibility test: does taking an edge with `edge_facts` contradict
    the `known` facts?  Sound only as a filter for paths (may answer False for an
    infeasible edge, never True for a feasible one given the known facts hold)."""
    for t in edge_facts:
        if t[0] in ("z", "false") and (("nz", t[1]) in known or ("pos", t[1]) in known or ("true", t[1]) in known):
            return True
        if t[0] in ("nz", "true", "pos") and (("z", t[1]) in known or ("false", t[1]) in known):
            return True
        if t[0] == "pos" and ("nonpos", t[1]) in known:
            return True
        if t[0] == "nonpos" and ("pos", t[1]) in known:
            return True
        if t[0] == "eq":
            a, b = t[1], t[2]
            if ("cmp", "!=", a, b) in known or ("cmp", "!=", b, a) in known:
                return True
            for x, y in ((a, b), (b, a)):
                if ("z", x) in known and (("nz", y) in known or ("pos", y) in known):
                    return True
        if t[0] == "cmp" and t[1] == "!=":
            if ("eq", t[2], t[3]) in known or ("eq", t[3], t[2]) in known:
                return True
    return False
