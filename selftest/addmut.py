#!/usr/bin/env python3
"""helper used while writing selftest/mutants.json: reads python literal dicts from stdin (one per block separated
by a line '----'), appends/replaces them by id, and verifies that each anchor occurs exactly once in /repo."""
import json, sys, ast, os
MP = os.path.join(os.path.dirname(os.path.abspath(__file__)), "mutants.json")
J = json.load(open(MP))
byid = {m["id"]: i for i, m in enumerate(J["mutants"])}
blocks = sys.stdin.read().split("\n----\n")
for b in blocks:
    if not b.strip():
        continue
    m = ast.literal_eval(b)
    m.setdefault("expect", [])
    m.setdefault("why", "")
    text = open(os.path.join("/repo", m["file"])).read()
    n = text.count(m["find"])
    if n != 1:
        print("!! %s: anchor occurs %d times" % (m["id"], n))
        continue
    if m["id"] in byid:
        J["mutants"][byid[m["id"]]] = m
    else:
        J["mutants"].append(m)
    print("ok", m["id"])
json.dump(J, open(MP, "w"), indent=1)
